//! Engine B of C18: the concurrent scenario without baton and without wrapper plugins (so no
//! artificial happens-before edges), executed under Miri's seeded scheduler. Miri's vector-clock
//! race detector flags unsynchronised access to the shared dictionary, plugins, lazy statics and
//! regex pools at instruction granularity; results are compared with the sequential expectations
//! computed natively by `vsim mirigen` from the same code.
//!
//! usage: vmiri <scenario.json>
use std::sync::Arc;
use sudachi::analysis::mlist::MorphemeList;
use sudachi::analysis::stateful_tokenizer::StatefulTokenizer;
use sudachi::analysis::Mode;
use sudachi::config::ConfigBuilder;
use sudachi::dic::dictionary::JapaneseDictionary;
use sudachi::dic::storage::{Storage, SudachiDicData};
use sudachi::dic::subset::InfoSubset;
use sudachi::sentence_splitter::{SentenceSplitter, SplitSentences};
use sudachi::analysis::stateless_tokenizer::DictionaryAccess;

fn mode_of(s: &str) -> Mode {
    match s {
        "A" => Mode::A,
        "B" => Mode::B,
        _ => Mode::C,
    }
}

fn run_thread(dict: Arc<JapaneseDictionary>, ops: Vec<serde_json::Value>) -> Vec<String> {
    let mut out = vec![];
    let mut tok = StatefulTokenizer::create(dict.clone(), false, Mode::C);
    let mut list = MorphemeList::empty(dict.clone());
    for op in ops {
        let text = op["text"].as_str().unwrap_or("");
        if op["op"] == "sentences" {
            let sp = SentenceSplitter::with_limit(64).with_checker(dict.lexicon());
            let v: Vec<String> = sp.split(text).map(|(r, _)| format!("{}-{}", r.start, r.end)).collect();
            out.push(v.join(","));
            continue;
        }
        tok.set_mode(mode_of(op["mode"].as_str().unwrap_or("C")));
        tok.set_subset(InfoSubset::from_bits_truncate(op["subset"].as_u64().unwrap_or(1023) as u32));
        tok.reset().push_str(text);
        match tok.do_tokenize() {
            Err(e) => out.push(format!("ERR {}", e)),
            Ok(()) => {
                list.collect_results(&mut tok).unwrap();
                let mut s = String::new();
                for m in list.iter() {
                    s.push_str(&format!(
                        "{}:{}:{}:{}:{}:{}:{}:{}:{:?}|",
                        m.begin(),
                        m.end(),
                        m.word_id().as_raw(),
                        m.part_of_speech_id(),
                        m.normalized_form(),
                        m.reading_form(),
                        m.total_cost(),
                        m.dictionary_form(),
                        m.synonym_group_ids()
                    ));
                }
                out.push(s);
            }
        }
    }
    out
}

fn load(sc: &serde_json::Value) -> Arc<JapaneseDictionary> {
    let dir = sc["dir"].as_str().unwrap().to_string();
    let cfg = ConfigBuilder::from_bytes(&serde_json::to_vec(&sc["config"]).unwrap())
        .expect("config")
        .resource_path(&dir)
        .build();
    let sys = std::fs::read(format!("{}/system.dic", dir)).expect("system.dic");
    let mut data = SudachiDicData::new(Storage::Owned(sys));
    for i in 0..sc["users"].as_u64().unwrap_or(0) {
        data.add_user(Storage::Owned(std::fs::read(format!("{}/user{}.dic", dir, i)).expect("user dic")));
    }
    Arc::new(JapaneseDictionary::from_cfg_storage(&cfg, data).expect("load"))
}

fn main() {
    let path = std::env::args().nth(1).expect("scenario path");
    let mut sc: serde_json::Value = serde_json::from_slice(&std::fs::read(&path).expect("read scenario")).expect("json");
    if std::env::args().nth(2).as_deref() == Some("--fill-expected") {
        // native, sequential: every thread's operation list alone on its own pristine dictionary
        let n = sc["threads"].as_array().unwrap().len();
        for i in 0..n {
            let d = load(&sc);
            let ops: Vec<serde_json::Value> = sc["threads"][i]["ops"].as_array().unwrap().clone();
            let exp = run_thread(d, ops);
            sc["threads"][i]["expected"] = serde_json::json!(exp);
        }
        std::fs::write(&path, serde_json::to_vec_pretty(&sc).unwrap()).expect("write scenario");
        println!("vmiri: expectations written");
        return;
    }
    let t0 = std::time::Instant::now();
    let dict = load(&sc);
    eprintln!("vmiri: loaded in {:?}", t0.elapsed());
    // every first use of the dictionary happens inside the threads
    let mut handles = vec![];
    for t in sc["threads"].as_array().unwrap() {
        let ops: Vec<serde_json::Value> = t["ops"].as_array().unwrap().clone();
        let d = dict.clone();
        handles.push(std::thread::spawn(move || run_thread(d, ops)));
    }
    let mut bad = 0;
    let t1 = std::time::Instant::now();
    for (i, h) in handles.into_iter().enumerate() {
        let got = h.join().expect("thread panicked");
        let exp: Vec<String> = sc["threads"][i]["expected"].as_array().unwrap().iter().map(|x| x.as_str().unwrap().to_string()).collect();
        for (k, (g, e)) in got.iter().zip(exp.iter()).enumerate() {
            if g != e {
                bad += 1;
                eprintln!("MISMATCH thread={} op={}\n  concurrent: {}\n  sequential: {}", i, k, g, e);
            }
        }
        if got.len() != exp.len() {
            bad += 1;
            eprintln!("MISMATCH thread={} op count {} vs {}", i, got.len(), exp.len());
        }
    }
    eprintln!("vmiri: threads done in {:?}", t1.elapsed());
    if bad > 0 {
        eprintln!("RESULT-DIFFERS-FROM-SEQUENTIAL count={}", bad);
        std::process::exit(3);
    }
    println!("vmiri: all threads match the sequential expectations");
}
