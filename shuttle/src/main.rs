//! Engine C of C18: the concurrent scenario against a *shadow build* of the sudachi crate in which
//! `std::sync` / `std::thread` / `thread_local!` are shuttle's. Every lock, atomic and once operation
//! (also ones a later change to the repository adds) is a scheduling point of shuttle's seeded
//! scheduler; a failing schedule is persisted and replays exactly.
//!
//! usage: vshuttle <scenario.json> --iterations N --seed S [--pct D] [--replay <schedule file>] [--dir <persist dir>]
use shuttle::scheduler::{PctScheduler, RandomScheduler, ReplayScheduler};
use shuttle::{Config, FailurePersistence, Runner};
use std::sync::Arc;
use sudachi::analysis::mlist::MorphemeList;
use sudachi::analysis::stateful_tokenizer::StatefulTokenizer;
use sudachi::analysis::stateless_tokenizer::DictionaryAccess;
use sudachi::analysis::Mode;
use sudachi::config::ConfigBuilder;
use sudachi::dic::dictionary::JapaneseDictionary;
use sudachi::dic::storage::{Storage, SudachiDicData};
use sudachi::dic::subset::InfoSubset;
use sudachi::sentence_splitter::{SentenceSplitter, SplitSentences};

fn mode_of(s: &str) -> Mode {
    match s {
        "A" => Mode::A,
        "B" => Mode::B,
        _ => Mode::C,
    }
}

fn run_thread(dict: Arc<JapaneseDictionary>, ops: Vec<serde_json::Value>) -> Vec<String> {
    let mut out = vec![];
    let mut tok = StatefulTokenizer::create(dict.clone(), false, Mode::C);
    let mut list = MorphemeList::empty(dict.clone());
    for op in ops {
        let text = op["text"].as_str().unwrap_or("");
        if op["op"] == "sentences" {
            // only present in the scenarios that keep these operations (the expectations are aligned with the operations)
            let sp = SentenceSplitter::with_limit(64).with_checker(dict.lexicon());
            let v: Vec<String> = sp.split(text).map(|(r, _)| format!("{}-{}", r.start, r.end)).collect();
            out.push(v.join(","));
            continue;
        }
        tok.set_mode(mode_of(op["mode"].as_str().unwrap_or("C")));
        tok.set_subset(InfoSubset::from_bits_truncate(op["subset"].as_u64().unwrap_or(1023) as u32));
        tok.reset().push_str(text);
        match tok.do_tokenize() {
            Err(e) => out.push(format!("ERR {}", e)),
            Ok(()) => {
                list.collect_results(&mut tok).unwrap();
                let mut s = String::new();
                for m in list.iter() {
                    s.push_str(&format!(
                        "{}:{}:{}:{}:{}:{}:{}:{}:{:?}|",
                        m.begin(),
                        m.end(),
                        m.word_id().as_raw(),
                        m.part_of_speech_id(),
                        m.normalized_form(),
                        m.reading_form(),
                        m.total_cost(),
                        m.dictionary_form(),
                        m.synonym_group_ids()
                    ));
                }
                out.push(s);
            }
        }
    }
    out
}

struct Files {
    sys: Vec<u8>,
    users: Vec<Vec<u8>>,
}

fn load(sc: &serde_json::Value, files: &Files) -> Arc<JapaneseDictionary> {
    let dir = sc["dir"].as_str().unwrap().to_string();
    let cfg = ConfigBuilder::from_bytes(&serde_json::to_vec(&sc["config"]).unwrap())
        .expect("config")
        .resource_path(&dir)
        .build();
    let mut data = SudachiDicData::new(Storage::Owned(files.sys.clone()));
    for u in &files.users {
        data.add_user(Storage::Owned(u.clone()));
    }
    Arc::new(JapaneseDictionary::from_cfg_storage(&cfg, data).expect("load"))
}

fn main() {
    let args: Vec<String> = std::env::args().collect();
    let path = args.get(1).expect("scenario path").clone();
    let mut iterations = 200usize;
    let mut seed = 1u64;
    let mut pct: Option<usize> = None;
    let mut replay: Option<String> = None;
    let mut dir = "/verif/work/shuttle".to_string();
    let mut i = 2;
    while i < args.len() {
        match args[i].as_str() {
            "--iterations" => {
                iterations = args[i + 1].parse().unwrap();
                i += 1
            }
            "--seed" => {
                seed = args[i + 1].parse().unwrap();
                i += 1
            }
            "--pct" => {
                pct = Some(args[i + 1].parse().unwrap());
                i += 1
            }
            "--replay" => {
                replay = Some(args[i + 1].clone());
                i += 1
            }
            "--dir" => {
                dir = args[i + 1].clone();
                i += 1
            }
            _ => {}
        }
        i += 1;
    }
    let sc: Arc<serde_json::Value> = Arc::new(serde_json::from_slice(&std::fs::read(&path).expect("read scenario")).expect("json"));
    let d = sc["dir"].as_str().unwrap().to_string();
    let mut users = vec![];
    for k in 0..sc["users"].as_u64().unwrap_or(0) {
        users.push(std::fs::read(format!("{}/user{}.dic", d, k)).expect("user dic"));
    }
    let files = Arc::new(Files { sys: std::fs::read(format!("{}/system.dic", d)).expect("system.dic"), users });
    let _ = std::fs::create_dir_all(&dir);
    let mut cfg = Config::new();
    cfg.stack_size = 8 << 20;
    cfg.failure_persistence = FailurePersistence::File(Some(std::path::PathBuf::from(&dir)));
    cfg.silence_warnings = true;
    let sc2 = sc.clone();
    let files2 = files.clone();
    let scenario = move || {
        // a freshly loaded dictionary per iteration: lazily initialised state is first touched by the tasks
        let dict = load(&sc2, &files2);
        let mut handles = vec![];
        for t in sc2["threads"].as_array().unwrap() {
            let ops: Vec<serde_json::Value> = t["ops"].as_array().unwrap().clone();
            let dd = dict.clone();
            handles.push(shuttle::thread::spawn(move || run_thread(dd, ops)));
        }
        for (i, h) in handles.into_iter().enumerate() {
            let got = h.join().expect("thread panicked");
            let exp: Vec<String> = sc2["threads"][i]["expected"]
                .as_array()
                .unwrap()
                .iter()
                .map(|x| x.as_str().unwrap().to_string())
                .collect();
            assert_eq!(got.len(), exp.len(), "RESULT-DIFFERS-FROM-SEQUENTIAL thread={} op count", i);
            for (k, (g, e)) in got.iter().zip(exp.iter()).enumerate() {
                assert!(g == e, "RESULT-DIFFERS-FROM-SEQUENTIAL thread={} op={}\n  concurrent: {}\n  sequential: {}", i, k, g, e);
            }
        }
    };
    let r = std::panic::catch_unwind(std::panic::AssertUnwindSafe(|| {
        if let Some(f) = &replay {
            let s = ReplayScheduler::new_from_file(f).expect("schedule file");
            Runner::new(s, cfg.clone()).run(scenario);
        } else if let Some(depth) = pct {
            Runner::new(PctScheduler::new_from_seed(seed, depth, iterations), cfg.clone()).run(scenario);
        } else {
            Runner::new(RandomScheduler::new_from_seed(seed, iterations), cfg.clone()).run(scenario);
        }
    }));
    match r {
        Ok(()) => {
            println!("vshuttle: iterations={} seed={} strategy={} all schedules match the sequential expectations", iterations, seed, if pct.is_some() { "pct" } else { "random" });
        }
        Err(_) => {
            println!("VSHUTTLE-FAILED seed={}", seed);
            std::process::exit(3);
        }
    }
}
