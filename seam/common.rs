// Shared by the three seam plugins: a sim point is a call to `vb_point` of libvbaton.so, which the
// controlling Python process loads with RTLD_GLOBAL before the dictionary. Threads that are not
// registered with the baton (e.g. the thread that loads the dictionary) pass straight through.
use std::sync::atomic::{AtomicUsize, Ordering};

static POINT_FN: AtomicUsize = AtomicUsize::new(0);

extern "C" {
    fn dlsym(handle: *mut std::ffi::c_void, symbol: *const std::os::raw::c_char) -> *mut std::ffi::c_void;
}

pub fn sim_point() {
    let mut f = POINT_FN.load(Ordering::Acquire);
    if f == 0 {
        // RTLD_DEFAULT == NULL on Linux
        let p = unsafe { dlsym(std::ptr::null_mut(), b"vb_point\0".as_ptr() as *const _) } as usize;
        f = if p == 0 { 1 } else { p };
        POINT_FN.store(f, Ordering::Release);
    }
    if f > 1 {
        let func: extern "C" fn() = unsafe { std::mem::transmute(f) };
        func();
    }
}
