//! no-op input-text plugin: a sim point before the real input-text plugins run
include!("../../common.rs");
use serde_json::Value;
use sudachi::config::Config;
use sudachi::dic::grammar::Grammar;
use sudachi::input_text::{InputBuffer, InputEditor};
use sudachi::plugin::input_text::InputTextPlugin;
use sudachi::plugin::PluginCategory;
use sudachi::prelude::*;
use sudachi::sudachi_dso_plugin;

#[derive(Default)]
pub struct SeamInput;

impl InputTextPlugin for SeamInput {
    fn set_up(&mut self, _s: &Value, _c: &Config, _g: &Grammar) -> SudachiResult<()> {
        Ok(())
    }
    fn rewrite(&self, _input: &mut InputBuffer) -> SudachiResult<()> {
        sim_point();
        Ok(())
    }
    fn rewrite_impl<'a>(&'a self, _input: &InputBuffer, edit: InputEditor<'a>) -> SudachiResult<InputEditor<'a>> {
        Ok(edit)
    }
}

sudachi_dso_plugin!(dyn InputTextPlugin, SeamInput);
