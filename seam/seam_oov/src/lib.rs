//! no-op OOV provider (listed first): a sim point at every lattice position, never a candidate
include!("../../common.rs");
use serde_json::Value;
use sudachi::analysis::created::CreatedWords;
use sudachi::analysis::Node;
use sudachi::config::Config;
use sudachi::dic::grammar::Grammar;
use sudachi::input_text::InputBuffer;
use sudachi::plugin::oov::OovProviderPlugin;
use sudachi::plugin::PluginCategory;
use sudachi::prelude::*;
use sudachi::sudachi_dso_plugin;

#[derive(Default)]
pub struct SeamOov;

impl OovProviderPlugin for SeamOov {
    fn set_up(&mut self, _s: &Value, _c: &Config, _g: &mut Grammar) -> SudachiResult<()> {
        Ok(())
    }
    fn provide_oov(&self, _input: &InputBuffer, _offset: usize, _other: CreatedWords, _result: &mut Vec<Node>) -> SudachiResult<usize> {
        sim_point();
        Ok(0)
    }
}

sudachi_dso_plugin!(dyn OovProviderPlugin, SeamOov);
