//! no-op path-rewrite plugin (listed last): a sim point after the best path was resolved
include!("../../common.rs");
use serde_json::Value;
use sudachi::analysis::lattice::Lattice;
use sudachi::analysis::node::ResultNode;
use sudachi::config::Config;
use sudachi::dic::grammar::Grammar;
use sudachi::input_text::InputBuffer;
use sudachi::plugin::path_rewrite::PathRewritePlugin;
use sudachi::plugin::PluginCategory;
use sudachi::prelude::*;
use sudachi::sudachi_dso_plugin;

#[derive(Default)]
pub struct SeamPath;

impl PathRewritePlugin for SeamPath {
    fn set_up(&mut self, _s: &Value, _c: &Config, _g: &Grammar) -> SudachiResult<()> {
        Ok(())
    }
    fn rewrite(&self, _text: &InputBuffer, path: Vec<ResultNode>, _lattice: &Lattice) -> SudachiResult<Vec<ResultNode>> {
        sim_point();
        Ok(path)
    }
}

sudachi_dso_plugin!(dyn PathRewritePlugin, SeamPath);
