#!/bin/bash
# Offline build of the verification framework from files on disk only.
set -e
cd "$(dirname "$0")"
export CARGO_NET_OFFLINE=true CARGO_TARGET_DIR=/verif/target
mkdir -p work evidence replays
(cd sim && cargo build --release --offline 2>&1 | tail -3)
echo "setup done"
