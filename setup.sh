#!/bin/bash
# Offline build of the verification framework from files on disk only.
set -e
cd "$(dirname "$0")"
export CARGO_NET_OFFLINE=true CARGO_TARGET_DIR=/verif/target
mkdir -p work evidence replays
(cd sim && cargo build --release --offline 2>&1 | tail -2)
(cd miri && CARGO_TARGET_DIR=/verif/target/miri cargo build --offline 2>&1 | tail -1)
(cd miri && CARGO_TARGET_DIR=/verif/target/miri cargo +nightly miri setup 2>&1 | tail -1) || echo "miri setup failed (C18 engine B will report a harness error)"
# sudachipy extension + CLI (C19, C06 front-end sinks, C18 Python threads); rebuilt by the checks whenever /repo changes
(cd /repo && CARGO_TARGET_DIR=/verif/target/py cargo build -p sudachipy -p sudachi-cli --offline 2>&1 | tail -1)
(cd seam && CARGO_TARGET_DIR=/verif/target/seam cargo build --offline 2>&1 | tail -1)
python3 tools_shadow.py && (cd shuttle && CARGO_TARGET_DIR=/verif/target/shuttle cargo build --release --offline 2>&1 | tail -1)
echo "setup done"
