#!/bin/bash
# usage: tools_verify_seed6.sh <worktree> <k> <demo-file> <dest-dir-in-worktree (e.g. sudachi/tests)> [cargo pkg]
# confirms in the scratch worktree: patch applies, suite passes with it, demo fails with it and passes without.
wt=$1; k=$2; demo=$3; dest=$4; pkg=${5:-sudachi}
cd $wt || exit 2
export CARGO_NET_OFFLINE=true
git checkout -q -- . ; 
name=$(basename $demo .rs)
mkdir -p $dest; cp seeded/$k/$demo $dest/$name.rs
cargo test -p $pkg --offline --test $name > /tmp/v6-$$-clean.log 2>&1; rc_clean=$?
git apply seeded/$k/patch.diff || { echo "APPLY-FAIL"; rm -f $dest/$name.rs; exit 2; }
cargo test -p $pkg --offline --test $name > /tmp/v6-$$-mut.log 2>&1; rc_mut=$?
rm -f $dest/$name.rs
cargo test --workspace --no-fail-fast --offline > /tmp/v6-$$-suite.log 2>&1; rc_suite=$?
passed=$(grep -h "^test result" /tmp/v6-$$-suite.log | awk '{p+=$4; f+=$6} END {print p" passed "f" failed"}')
git checkout -q -- .
echo "$(basename $wt)/$k: demo clean rc=$rc_clean (want 0), demo mutated rc=$rc_mut (want !=0), suite rc=$rc_suite ($passed)"
tail -5 /tmp/v6-$$-mut.log | cut -c1-200
rm -f /tmp/v6-$$-*.log
