#!/bin/bash
# Sensitivity self-test (development only): applies every seeded change to /repo in turn, runs the quick
# check of the property it breaks, records whether a VIOLATION was reported, restores /repo.
cd /verif
out=/verif/seeded/RESULTS.tsv
echo -e "mutant\tproperty\texit\tviolation_lines\tfirst_violation" > $out
for d in /verif/seeded/C*-*/; do
  name=$(basename $d); prop=${name%%-*}
  if ! git -C /repo diff --quiet; then echo "repo dirty"; exit 2; fi
  if ! git -C /repo apply $d/patch.diff 2>/dev/null; then echo -e "$name\t$prop\tNA\t0\tpatch does not apply" >> $out; continue; fi
  log=/verif/work/seed-$name.log
  timeout 3000 ./check $prop --tier quick > $log 2>&1; rc=$?
  git -C /repo checkout -- .
  n=$(grep -c "^VIOLATION" $log)
  first=$(grep -m1 "^violation:" $log | cut -c1-220 | tr '\t' ' ')
  echo -e "$name\t$prop\t$rc\t$n\t$first" >> $out
  rm -f /verif/replays/*.json
done
echo done >> $out
