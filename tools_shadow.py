#!/usr/bin/env python3
"""Creates /verif/work/shadow/sudachi: a copy of /repo/sudachi's sources in which `std::sync`, `std::thread` and
`thread_local!` are routed to shuttle's implementations through a shim module, so that every lock / atomic /
once operation (also ones a later change adds) becomes a scheduling point of shuttle's seeded scheduler.
Nothing in /repo is touched."""
import os
import re
import shutil
import sys

SRC = "/repo/sudachi"
DST = "/verif/work/shadow/sudachi"

SHIM = '''

// ---- added by /verif/tools_shadow.py (simulation build only) ----
#[allow(unused_imports)]
pub mod vsync {
    pub use shuttle::sync::*;
    pub use std::sync::{LazyLock, OnceLock};
}
#[allow(unused_imports)]
pub mod vthread {
    pub use shuttle::thread::*;
}
/// scheduling point inserted at function entries of the plugin / analysis code (simulation build only)
#[inline(never)]
pub fn vyield() {
    shuttle::thread::yield_now();
}
'''


# single-line function headers with a body: `fn name(...) [-> T] [where ..] {`  (not `const fn`, not declarations ending in `;`)
FN_OPEN = re.compile(r"^[ \t]*(?:pub(?:\([^)]*\))?[ \t]+)?(?:unsafe[ \t]+)?fn[ \t]+\w+[^;{}\n]*\{[ \t]*$", re.M)


def main():
    shutil.rmtree(DST, ignore_errors=True)
    os.makedirs(DST)
    shutil.copytree(os.path.join(SRC, "src"), os.path.join(DST, "src"))
    n_sync = n_thread = n_tl = n_yield = 0
    for root, _dirs, files in os.walk(os.path.join(DST, "src")):
        for f in files:
            if not f.endswith(".rs"):
                continue
            p = os.path.join(root, f)
            s = open(p, encoding="utf-8").read()
            rel = os.path.relpath(p, os.path.join(DST, "src"))
            if (rel.startswith(("plugin/", "analysis/", "input_text/")) or rel in ("sentence_detector.rs", "sentence_splitter.rs", "dic/lexicon_set.rs",
                                                                                "dic/lexicon/word_infos.rs")) and "/test" not in rel and not f.startswith("test"):
                # a scheduling point at the entry of every function of the plugins, of the analysis core, of the sentence
                # detector / splitter and of the word-info readers, so that two
                # tasks can be *inside* the same plugin call at the same time (e.g. one of them holding a lock)
                s, k = FN_OPEN.subn(lambda m: m.group(0) + " crate::vyield();", s)
                n_yield += k
            s2, a = re.subn(r"(?<![A-Za-z0-9_:])(::)?std::sync\b", "crate::vsync", s)
            s2, b = re.subn(r"(?<![A-Za-z0-9_:])(::)?std::thread\b", "crate::vthread", s2)
            s2, c = re.subn(r"(?<![A-Za-z0-9_:])thread_local!", "shuttle::thread_local!", s2)
            n_sync += a
            n_thread += b
            n_tl += c
            if s2 != s:
                open(p, "w", encoding="utf-8").write(s2)
    lib = os.path.join(DST, "src", "lib.rs")
    open(lib, "a", encoding="utf-8").write(SHIM)
    cargo = open(os.path.join(SRC, "Cargo.toml"), encoding="utf-8").read()
    # drop dev-dependencies (they point to sibling plugin crates) and add shuttle
    cargo = cargo.split("[dev-dependencies]")[0]
    cargo = cargo.replace("[dependencies] # this should be sorted", "[dependencies]\nshuttle = \"0.9\"")
    cargo += "\n[lib]\ncrate-type = [\"rlib\"]\n"
    open(os.path.join(DST, "Cargo.toml"), "w", encoding="utf-8").write(cargo)
    print("shadow: std::sync rewritten %d times, std::thread %d, thread_local! %d, yield points inserted %d" % (n_sync, n_thread, n_tl, n_yield))


if __name__ == "__main__":
    main()
