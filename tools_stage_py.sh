#!/bin/bash
# builds the sudachipy extension + CLI from /repo's working tree and stages an importable package
set -e
export CARGO_NET_OFFLINE=true CARGO_TARGET_DIR=/verif/target/py
(cd /repo && cargo build -p sudachipy -p sudachi-cli --offline 2>&1 | grep -E "^error|warning: unused" -A6 | head -40; test ${PIPESTATUS[0]} -eq 0)
rm -rf /verif/work/stage && mkdir -p /verif/work/stage
cp -r /repo/python/py_src/sudachipy /verif/work/stage/sudachipy
cp /verif/target/py/debug/libsudachipy.so /verif/work/stage/sudachipy/sudachipy.so
echo staged
