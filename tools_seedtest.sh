#!/bin/bash
# usage: tools_seedtest.sh <seeded-dir-name> <command...>
# applies /verif/seeded/<name>/patch.diff to /repo, runs the command, always restores /repo.
set -u
name=$1; shift
patch=/verif/seeded/$name/patch.diff
cd /repo || exit 2
if ! git diff --quiet; then echo "refusing: /repo has uncommitted changes"; exit 2; fi
git apply "$patch" || { echo "patch does not apply"; exit 2; }
( cd /verif && "$@" )
rc=$?
git -C /repo checkout -- .
echo "seedtest $name: exit=$rc"
exit $rc
