//! Dictionary factory: turns a `WorldSpec` into real compiled bytes and a real loaded
//! `JapaneseDictionary` (all of it the repository's own code).

use crate::world::WorldSpec;
use std::path::{Path, PathBuf};
use std::sync::Arc;
use std::time::{Duration, SystemTime};
use sudachi::config::{Config, ConfigBuilder};
use sudachi::dic::build::DictBuilder;
use sudachi::dic::dictionary::JapaneseDictionary;
use sudachi::dic::storage::{Storage, SudachiDicData};
use sudachi::dic::DictionaryLoader;

pub const FIXED_TIME: u64 = 1_700_000_000;

pub fn compile_system(matrix: &[u8], csvs: &[&[u8]], time: u64, desc: &str) -> Result<Vec<u8>, String> {
    let mut b = DictBuilder::new_system();
    b.set_compile_time(SystemTime::UNIX_EPOCH + Duration::from_secs(time));
    b.set_description(desc);
    b.read_conn(matrix).map_err(|e| format!("read_conn: {}", e))?;
    for c in csvs {
        b.read_lexicon(*c).map_err(|e| format!("read_lexicon: {}", e))?;
    }
    b.resolve().map_err(|e| format!("resolve: {}", e))?;
    let mut out = Vec::new();
    b.compile(&mut out).map_err(|e| format!("compile: {}", e))?;
    Ok(out)
}

pub fn compile_user(system: &[u8], csvs: &[&[u8]], time: u64, desc: &str) -> Result<Vec<u8>, String> {
    let loaded = DictionaryLoader::read_system_dictionary(system)
        .map_err(|e| format!("load system: {}", e))?
        .to_loaded()
        .ok_or_else(|| "system dictionary without grammar".to_string())?;
    let mut b = DictBuilder::new_user(&loaded);
    b.set_compile_time(SystemTime::UNIX_EPOCH + Duration::from_secs(time));
    b.set_description(desc);
    for c in csvs {
        b.read_lexicon(*c).map_err(|e| format!("read_lexicon(user): {}", e))?;
    }
    b.resolve().map_err(|e| format!("resolve(user): {}", e))?;
    let mut out = Vec::new();
    b.compile(&mut out).map_err(|e| format!("compile(user): {}", e))?;
    Ok(out)
}

pub struct BuiltWorld {
    pub dict: Arc<JapaneseDictionary>,
    pub sys_bytes: Vec<u8>,
    pub user_bytes: Vec<Vec<u8>>,
    pub dir: PathBuf,
    pub config: Config,
}

pub fn write_resources(spec: &WorldSpec, dir: &Path) -> Result<(), String> {
    std::fs::create_dir_all(dir).map_err(|e| e.to_string())?;
    std::fs::write(dir.join("char.def"), &spec.char_def).map_err(|e| e.to_string())?;
    std::fs::write(dir.join("unk.def"), &spec.unk_def).map_err(|e| e.to_string())?;
    std::fs::write(dir.join("rewrite.def"), &spec.rewrite_def).map_err(|e| e.to_string())?;
    Ok(())
}

pub fn make_config(spec: &WorldSpec, dir: &Path) -> Result<Config, String> {
    let bytes = serde_json::to_vec(&spec.config).map_err(|e| e.to_string())?;
    let cb = ConfigBuilder::from_bytes(&bytes).map_err(|e| format!("config: {}", e))?;
    Ok(cb.resource_path(dir).build())
}

pub fn load_dict(
    cfg: &Config,
    sys: Storage,
    users: Vec<Storage>,
) -> Result<JapaneseDictionary, String> {
    let mut data = SudachiDicData::new(sys);
    for u in users {
        data.add_user(u);
    }
    JapaneseDictionary::from_cfg_storage(cfg, data).map_err(|e| format!("load: {}", e))
}

/// Build and load a world. Everything is real code from /repo.
pub fn build_world(spec: &WorldSpec, dir: &Path) -> Result<BuiltWorld, String> {
    write_resources(spec, dir)?;
    let sys_bytes = compile_system(
        spec.matrix.as_bytes(),
        &[spec.system_csv.as_bytes()],
        FIXED_TIME,
        "vsim",
    )?;
    let mut user_bytes = vec![];
    for u in &spec.user_csv {
        user_bytes.push(compile_user(&sys_bytes, &[u.as_bytes()], FIXED_TIME, "vsim-user")?);
    }
    let config = make_config(spec, dir)?;
    let dict = load_dict(
        &config,
        Storage::Owned(sys_bytes.clone()),
        user_bytes.iter().map(|b| Storage::Owned(b.clone())).collect(),
    )?;
    Ok(BuiltWorld {
        dict: Arc::new(dict),
        sys_bytes,
        user_bytes,
        dir: dir.to_path_buf(),
        config,
    })
}
