//! pygen (C19, PySim): generates, from the seed, worlds written to disk and *scripts* of Python
//! API calls, each with the expected observable result computed by the Rust library on fresh
//! objects (so dropping operations keeps a script valid). `py/pysim.py` executes them against
//! the real extension built from /repo.

use crate::dictfac::{build_world, BuiltWorld};
use crate::proj::{project, ListProj, MorphProj};
use crate::rng::Rng;
use crate::toksim::{fresh_analyse, mode_of};
use crate::world::{gen_text, gen_world, oversized_text, WorldGenOpts, WorldSpec};
use serde_json::{json, Value};
use std::path::Path;
use std::sync::Arc;
use sudachi::analysis::mlist::MorphemeList;
use sudachi::analysis::Mode;
use sudachi::dic::dictionary::JapaneseDictionary;
use sudachi::dic::subset::InfoSubset;

const FIELD_NAMES: [(&str, u32); 9] = [
    ("surface", 1 << 0),
    ("pos", 1 << 2),
    ("normalized_form", 1 << 3),
    ("dictionary_form", 1 << 4),
    ("reading_form", 1 << 5),
    ("split_a", 1 << 6),
    ("split_b", 1 << 7),
    ("word_structure", 1 << 8),
    ("synonym_group_id", 1 << 9),
];

struct TokSpec {
    mode: String,
    fields: Option<Vec<String>>,
    /// the projection in effect: the `projection=` argument of `Dictionary.create`, else the dictionary's own
    projection: Option<String>,
    /// what is passed to `Dictionary.create(projection=...)`
    kw_projection: Option<String>,
    subset: InfoSubset,
}

fn subset_of(fields: &Option<Vec<String>>, projection: &Option<String>) -> InfoSubset {
    let mut s = match fields {
        None => InfoSubset::all(),
        Some(f) => {
            let mut b = 0u32;
            for n in f {
                for (k, v) in FIELD_NAMES.iter() {
                    if k == n {
                        b |= v;
                    }
                }
            }
            InfoSubset::from_bits_truncate(b)
        }
    };
    if let Some(p) = projection {
        s |= match p.as_str() {
            "normalized" => InfoSubset::NORMALIZED_FORM,
            "reading" => InfoSubset::READING_FORM,
            "dictionary" | "dictionary_and_surface" => InfoSubset::DIC_FORM_WORD_ID,
            "normalized_and_surface" | "normalized_nouns" => InfoSubset::NORMALIZED_FORM,
            _ => InfoSubset::empty(),
        };
    }
    s
}

fn morph_json(m: &MorphProj, text: &str, projection: &Option<String>) -> Value {
    let mut o = json!({
        "begin": m.begin_c, "end": m.end_c, "raw_surface": m.surface, "is_oov": m.is_oov,
        "word_id": m.word_id, "dictionary_id": m.dic_id, "len": m.end_c - m.begin_c,
    });
    let _ = text;
    if let Some(p) = &m.pos {
        o["part_of_speech"] = json!(p);
        o["part_of_speech_id"] = json!(m.pos_id);
    }
    if let Some(x) = &m.norm {
        o["normalized_form"] = json!(x);
    }
    if let Some(x) = &m.dict_form {
        o["dictionary_form"] = json!(x);
    }
    if let Some(x) = &m.reading {
        o["reading_form"] = json!(x);
    }
    if let Some(x) = &m.synonyms {
        o["synonym_group_ids"] = json!(x);
    }
    // what surface() shows under the tokenizer's projection
    let surf = match projection.as_deref() {
        None | Some("surface") => Some(m.surface.clone()),
        Some("normalized") => m.norm.clone(),
        Some("reading") => m.reading.clone(),
        Some("dictionary") => m.dict_form.clone(),
        // the part-of-speech based projections of python/src/projection.rs
        Some(p @ ("dictionary_and_surface" | "normalized_and_surface")) => match &m.pos {
            Some(pos) => {
                let conjugating = matches!(pos[0].as_str(), "動詞" | "形容詞" | "助動詞");
                if conjugating {
                    Some(m.surface.clone())
                } else if p == "dictionary_and_surface" {
                    m.dict_form.clone()
                } else {
                    m.norm.clone()
                }
            }
            None => None,
        },
        Some("normalized_nouns") => match &m.pos {
            Some(pos) => {
                if pos[5] == "*" {
                    m.norm.clone()
                } else {
                    Some(m.surface.clone())
                }
            }
            None => None,
        },
        _ => None,
    };
    if let Some(s) = surf {
        o["surface"] = json!(s);
    }
    o
}

fn list_json(p: &ListProj, projection: &Option<String>) -> Value {
    json!({
        "morphemes": p.morphemes.iter().map(|m| morph_json(m, &p.text, projection)).collect::<Vec<_>>(),
        "size": p.morphemes.len(),
    })
}

struct Slot {
    list: MorphemeList<Arc<JapaneseDictionary>>,
    projection: Option<String>,
    valid: bool,
    group: usize,
    text: String,
    fill: usize,
}

fn python_config(spec: &WorldSpec, world: &BuiltWorld) -> Result<String, String> {
    let dir = &world.dir;
    std::fs::write(dir.join("system.dic"), &world.sys_bytes).map_err(|e| e.to_string())?;
    let mut users = vec![];
    for (i, u) in world.user_bytes.iter().enumerate() {
        let p = dir.join(format!("user{}.dic", i));
        std::fs::write(&p, u).map_err(|e| e.to_string())?;
        users.push(p.display().to_string());
    }
    let mut cfg = spec.config.clone();
    cfg["systemDict"] = json!(dir.join("system.dic").display().to_string());
    cfg["userDict"] = json!(users);
    Ok(cfg.to_string())
}


/// a PosMatcher specification for Python and the ids it must select (None: it must be rejected)
fn gen_pos_spec(rng: &mut Rng, pos_list: &[Vec<String>]) -> (Value, Option<Vec<u16>>) {
    if rng.chance(1, 4) {
        // predicate on one component
        let idx = rng.below(6);
        let val = if rng.chance(1, 8) { "なし".to_string() } else { rng.pick(pos_list)[idx].clone() };
        let ids: Vec<u16> = pos_list.iter().enumerate().filter(|(_, p)| p[idx] == val).map(|(i, _)| i as u16).collect();
        return (json!({"kind":"fn","index":idx,"value":val}), Some(ids));
    }
    let mut tuples = vec![];
    let mut ids: Vec<u16> = vec![];
    let mut rejected = false;
    for _ in 0..1 + rng.below(3) {
        let base = rng.pick(pos_list).clone();
        let len = match rng.below(5) {
            0 => rng.below(6),
            _ => 6,
        };
        let mut t: Vec<Option<String>> = base.iter().take(len).map(|x| Some(x.clone())).collect();
        for e in t.iter_mut() {
            if rng.chance(1, 3) {
                *e = None;
            }
        }
        if rng.chance(1, 12) && !t.is_empty() {
            let k = rng.below(t.len());
            t[k] = Some("存在しない".to_string());
        }
        let hit: Vec<u16> = pos_list
            .iter()
            .enumerate()
            .filter(|(_, p)| t.iter().enumerate().all(|(k, e)| e.as_ref().map(|e| e == &p[k]).unwrap_or(true)))
            .map(|(i, _)| i as u16)
            .collect();
        if hit.is_empty() {
            rejected = true;
        }
        ids.extend(hit);
        tuples.push(t);
    }
    (json!({"kind":"tuples","tuples":tuples}), if rejected { None } else { Some(ids) })
}


/// one script: tokenizers, list slots and operations with expectations from fresh Rust objects
#[allow(clippy::too_many_arguments)]
pub fn gen_script(rng: &mut Rng, spec: &WorldSpec, built: &BuiltWorld, cfg: &str, si: usize, seed: u64, nops_hint: usize, with_pretok: bool) -> Result<Value, String> {
    let mut rng = rng.clone();
    // dictionary-level projection (`"projection"` in the configuration): tokenizers created without `projection=`
    // inherit it, an explicit argument (also "surface") overrides it. Own PRNG stream; not with the pre-tokenizer
    // and thread cases, whose expectations are plain surfaces.
    let mut dr = Rng::derive(seed, "pygen/dictproj", si as u64);
    let dict_projection: Option<String> = if !with_pretok && dr.chance(1, 3) {
        Some(["normalized", "reading", "dictionary"][dr.below(3)].to_string())
    } else {
        None
    };
    let cfg_owned = match &dict_projection {
        Some(p) => {
            let mut v: Value = serde_json::from_str(cfg).map_err(|e| e.to_string())?;
            v["projection"] = json!(p);
            v.to_string()
        }
        None => cfg.to_string(),
    };
    let cfg: &str = &cfg_owned;
    {
        let dict = built.dict.clone();
        // tokenizers
        let modes = ["A", "B", "C"];
        let ntok = 1 + rng.below(3);
        let mut toks = vec![];
        for _ in 0..ntok {
            let fields = if rng.chance(1, 2) {
                None
            } else {
                let mut f: Vec<String> = FIELD_NAMES.iter().filter(|_| rng.chance(1, 2)).map(|(k, _)| k.to_string()).collect();
                if spec.has_path_rewrite {
                    for need in ["surface", "pos", "normalized_form"] {
                        if !f.iter().any(|x| x == need) {
                            f.push(need.to_string());
                        }
                    }
                }
                Some(f)
            };
            let projection = match rng.below(9) {
                0 => Some("normalized".to_string()),
                1 => Some("reading".to_string()),
                2 => Some("dictionary".to_string()),
                3 => Some("surface".to_string()),
                4 => Some("dictionary_and_surface".to_string()),
                5 => Some("normalized_and_surface".to_string()),
                6 => Some("normalized_nouns".to_string()),
                _ => None,
            };
            // the part-of-speech based projections look at the POS: it must be among the requested fields
            let fields = match (&projection, fields) {
                (Some(p), Some(mut f)) if p.ends_with("_surface") || p.ends_with("_nouns") => {
                    if !f.iter().any(|x| x == "pos") {
                        f.push("pos".to_string());
                    }
                    Some(f)
                }
                (_, f) => f,
            };
            let kw_projection = projection.clone();
            let projection = projection.or_else(|| dict_projection.clone());
            // the bindings load what the projection in effect reads (an explicit one replaces the dictionary's)
            let subset = subset_of(&fields, &projection);
            toks.push(TokSpec { mode: modes[rng.below(3)].to_string(), fields, projection, kw_projection, subset });
        }
        let n_slots = 1 + rng.below(4);
        let mut slots: Vec<Option<Slot>> = (0..n_slots).map(|_| None).collect();
        let mut next_group = 0usize;
        let mut next_fill = 0usize;
        let mut ops: Vec<Value> = vec![];
        let nops = nops_hint;
        for _ in 0..nops {
            let store = rng.below(n_slots);
            match rng.weighted(&[50, 18, 8, 10, 8, 3, 3, 6, 5, 2, 5]) {
                0 => {
                    // tokenize
                    let t = rng.below(ntok);
                    let text = gen_text(&mut rng, &spec.keys).replace('\u{0}', "");
                    let call_mode = if rng.chance(1, 3) { Some(modes[rng.below(3)].to_string()) } else { None };
                    let mode_as_obj = rng.chance(1, 2);
                    let use_out = rng.chance(1, 2) && slots[store].is_some();
                    let eff = mode_of(call_mode.as_deref().unwrap_or(&toks[t].mode));
                    // a text on which the core library itself panics has no result to compare with (not this property's matter)
                    let r = match crate::harness::catch(|| fresh_analyse(&dict, eff, Some(toks[t].subset), &text)) {
                        Ok(r) => r,
                        Err(_) => continue,
                    };
                    let mut op = json!({"op":"tokenize","t":t,"text":text,"mode":call_mode,"mode_as_obj":mode_as_obj,
                                        "out": if use_out { json!(store) } else { Value::Null }, "store": store});
                    match r {
                        Err(e) => {
                            op["expect"] = json!({"error": e});
                        }
                        Ok(list) => {
                            let f = list.subset();
                            let p = project(&list, f);
                            // surface() projects with the projection of the list *object* (set by whoever created it)
                            let list_proj = if use_out { slots[store].as_ref().unwrap().projection.clone() } else { toks[t].projection.clone() };
                            op["expect"] = list_json(&p, &list_proj);
                            op["expect"]["str"] = json!(p.morphemes.iter().map(|m| m.surface.clone()).collect::<Vec<_>>().join(" "));
                            // get_internal_cost() overflows (debug builds panic) when the path mixes split
                            // nodes (cost i32::MAX) with negative totals: C03's business, not compared then
                            if let Ok(c) = crate::harness::catch(|| list.get_internal_cost()) {
                                op["expect"]["internal_cost"] = json!(c);
                            }
                            // storing into a slot: a reused list keeps its input sharing group and
                            // invalidates the other members; a new list starts a new group
                            let group = if use_out { slots[store].as_ref().unwrap().group } else { next_group += 1; next_group };
                            if use_out {
                                for (j, s) in slots.iter_mut().enumerate() {
                                    if j != store {
                                        if let Some(s) = s {
                                            if s.group == group {
                                                s.valid = false;
                                            }
                                        }
                                    }
                                }
                            }
                            next_fill += 1;
                            op["fill"] = json!(next_fill);
                            slots[store] = Some(Slot { list, projection: list_proj, valid: true, group, text, fill: next_fill });
                        }
                    }
                    ops.push(op);
                }
                1 => {
                    // split a morpheme of a valid list
                    let src = rng.below(n_slots);
                    let (n, ok) = match &slots[src] {
                        Some(s) if s.valid && s.list.len() > 0 => (s.list.len(), true),
                        _ => (0, false),
                    };
                    if !ok || src == store {
                        continue;
                    }
                    let idx = rng.below(n);
                    let m = modes[rng.below(3)];
                    {
                        // on-demand splitting reads the split field: only decided when that field was
                        // *requested* (earlier per-call modes legitimately leave extra fields loaded)
                        let need = crate::toksim::mode_subset(mode_of(m));
                        if !slots[src].as_ref().unwrap().list.subset().contains(need) {
                            continue;
                        }
                    }
                    let add_single = match rng.below(3) {
                        0 => Some(true),
                        1 => Some(false),
                        _ => None,
                    };
                    let use_out = rng.chance(1, 2) && slots[store].is_some();
                    let parent = slots[src].as_ref().unwrap();
                    let mut outl = MorphemeList::empty(dict.clone());
                    let did = if mode_of(m) == Mode::C { false } else { parent.list.split_into(mode_of(m), idx, &mut outl).map_err(|e| e.to_string())? };
                    if !did && add_single.unwrap_or(true) {
                        // the current morpheme itself
                        parent.list.copy_slice(idx, idx + 1, &mut outl);
                    }
                    // the output shares the parent's input: project through the parent
                    let f = parent.list.subset();
                    // `outl` may point to its own (empty) input when nothing was split and a node was
                    // copied; rebuild through split semantics: read via the parent for copied node
                    let p = if did {
                        project(&outl, f)
                    } else if add_single.unwrap_or(true) {
                        let full = project(&parent.list, f);
                        ListProj { text: full.text.clone(), morphemes: vec![full.morphemes[idx].clone()] }
                    } else {
                        ListProj { text: parent.text.clone(), morphemes: vec![] }
                    };
                    let proj = if use_out { slots[store].as_ref().unwrap().projection.clone() } else { parent.projection.clone() };
                    let group = parent.group;
                    let text = parent.text.clone();
                    next_fill += 1;
                    let mut op = json!({"op":"split","list":src,"of_fill":parent.fill,"idx":idx,"mode":m,"add_single":add_single,
                                        "out": if use_out { json!(store) } else { Value::Null }, "store": store, "fill": next_fill});
                    op["expect"] = list_json(&p, &proj);
                    // keep a Rust-side shadow of the result for later reads: re-split into a list that
                    // really shares the parent's input
                    let mut shadow = MorphemeList::empty(dict.clone());
                    if did {
                        let _ = parent.list.split_into(mode_of(m), idx, &mut shadow);
                    }
                    let keep_valid = did; // a copied single node is only compared right away
                    slots[store] = Some(Slot { list: shadow, projection: proj, valid: keep_valid, group, text, fill: next_fill });
                    ops.push(op);
                }
                2 => {
                    // dictionary lookup
                    let q = if spec.keys.is_empty() { "あ".to_string() } else { rng.pick(&spec.keys).clone() };
                    let use_out = rng.chance(1, 2) && slots[store].is_some();
                    let mut l = MorphemeList::empty(dict.clone());
                    let n = l.lookup(&q, InfoSubset::all()).map_err(|e| e.to_string())?;
                    let p = project(&l, InfoSubset::all());
                    next_fill += 1;
                    let mut op = json!({"op":"lookup","surface":q,"out": if use_out { json!(store) } else { Value::Null }, "store": store, "fill": next_fill});
                    // lookup lists carry the dictionary's projection (none here)
                    let keep_proj = if use_out { slots[store].as_ref().unwrap().projection.clone() } else { dict_projection.clone() };
                    op["expect"] = list_json(&p, &keep_proj);
                    op["expect"]["count"] = json!(n);
                    let group = if use_out { slots[store].as_ref().unwrap().group } else { next_group += 1; next_group };
                    if use_out {
                        for (j, s) in slots.iter_mut().enumerate() {
                            if j != store {
                                if let Some(s) = s {
                                    if s.group == group {
                                        s.valid = false;
                                    }
                                }
                            }
                        }
                    }
                    slots[store] = Some(Slot { list: l, projection: keep_proj, valid: true, group, text: q, fill: next_fill });
                    ops.push(op);
                }
                3 => {
                    // read a filled list again
                    let src = rng.below(n_slots);
                    if let Some(s) = &slots[src] {
                        if s.valid {
                            let f = s.list.subset();
                            let p = project(&s.list, f);
                            let mut op = json!({"op":"reread","list":src,"of_fill":s.fill});
                            op["expect"] = list_json(&p, &s.projection);
                            ops.push(op);
                        } else {
                            ops.push(json!({"op":"stale","list":src}));
                        }
                    }
                }
                4 => {
                    // touch Morpheme objects handed out earlier (possibly stale): must not crash
                    ops.push(json!({"op":"stale","list":rng.below(n_slots)}));
                }
                5 => {
                    let t = rng.below(ntok);
                    let text = oversized_text(&mut rng);
                    // the failing call may carry a per-call mode and an out list: neither may leak
                    let call_mode = if rng.chance(2, 3) { json!(modes[rng.below(3)]) } else { Value::Null };
                    let use_out = rng.chance(1, 2) && slots[store].is_some();
                    ops.push(json!({"op":"tokenize","t":t,"text":text,"mode":call_mode,"mode_as_obj":rng.chance(1, 2),
                                    "out": if use_out { json!(store) } else { Value::Null },"store":store,
                                    "expect":{"error":"input too long"}}));
                }
                6 if rng.chance(1, 2) => {
                    // a str that cannot be encoded as UTF-8 (lone surrogate): must raise, or else still satisfy
                    // text[m.begin():m.end()] == m.raw_surface()
                    let t = rng.below(ntok);
                    let a = gen_text(&mut rng, &spec.keys).replace('\u{0}', "");
                    let b = gen_text(&mut rng, &spec.keys).replace('\u{0}', "");
                    let sur: u32 = [0xd800u32, 0xdbff, 0xdc00, 0xdfff][rng.below(4)];
                    ops.push(json!({"op":"tokenize_surrogate","t":t,"before":a,"after":b,"surrogate": sur}));
                }
                7 => {
                    // PosMatcher: built from partial tuples or a predicate, combined with | & - ~, applied to morphemes
                    let pos_list = &dict.grammar().pos_list;
                    if pos_list.is_empty() {
                        continue;
                    }
                    let (a, a_ids) = gen_pos_spec(&mut rng, pos_list);
                    let comb = match rng.below(6) {
                        0 => Some("or"),
                        1 => Some("and"),
                        2 => Some("sub"),
                        3 => Some("not"),
                        _ => None,
                    };
                    let (b, b_ids) = if matches!(comb, Some("or" | "and" | "sub")) {
                        let (b, i) = gen_pos_spec(&mut rng, pos_list);
                        (b, i)
                    } else {
                        (Value::Null, None)
                    };
                    let mut op = json!({"op":"posmatch","a":a,"b":b,"comb":comb});
                    match (a_ids, comb, b_ids) {
                        (None, _, _) | (_, Some("or" | "and" | "sub"), None) => {
                            op["expect"] = json!({"error": true});
                        }
                        (Some(ai), comb, bi) => {
                            use sudachi::pos::PosMatcher;
                            let ma = PosMatcher::new(ai.iter().cloned());
                            let res = match (comb, bi) {
                                (Some("or"), Some(bi)) => ma.union(&PosMatcher::new(bi.iter().cloned())),
                                (Some("and"), Some(bi)) => ma.intersection(&PosMatcher::new(bi.iter().cloned())),
                                (Some("sub"), Some(bi)) => ma.difference(&PosMatcher::new(bi.iter().cloned())),
                                (Some("not"), _) => PosMatcher::new((0..pos_list.len()).map(|x| x as u16).filter(|x| !ma.matches_id(*x))),
                                _ => ma,
                            };
                            let mut ids: Vec<u16> = res.entries().collect();
                            ids.sort();
                            let mut poses: Vec<Vec<String>> = ids.iter().map(|i| pos_list[*i as usize].clone()).collect();
                            poses.sort();
                            op["expect"] = json!({"n": ids.len(), "pos": poses});
                            let src = rng.below(n_slots);
                            if let Some(sl) = &slots[src] {
                                if sl.valid && sl.list.subset().contains(InfoSubset::POS_ID) {
                                    let m: Vec<bool> = sl.list.iter().map(|m| res.matches_id(m.part_of_speech_id())).collect();
                                    op["list"] = json!(src);
                                    op["of_fill"] = json!(sl.fill);
                                    op["expect"]["matches"] = json!(m);
                                }
                            }
                        }
                    }
                    ops.push(op);
                }
                8 => {
                    // Morpheme.get_word_info() of a morpheme of a valid list: every attribute
                    let src = rng.below(n_slots);
                    if let Some(sl) = &slots[src] {
                        if sl.valid && sl.list.len() > 0 {
                            let idx = rng.below(sl.list.len());
                            let m = sl.list.get(idx);
                            let wi = m.get_word_info();
                            let raw = |v: &[sudachi::dic::word_id::WordId]| v.iter().map(|w| w.as_raw()).collect::<Vec<u32>>();
                            // only attributes of *requested* fields are promised (the Python list may have more loaded)
                            let sub = sl.list.subset();
                            let has = |f: InfoSubset| sub.contains(f);
                            let mut e = serde_json::Map::new();
                            if has(InfoSubset::SURFACE) {
                                e.insert("surface".into(), json!(wi.surface()));
                            }
                            if has(InfoSubset::HEAD_WORD_LENGTH) {
                                e.insert("head_word_length".into(), json!(wi.head_word_length()));
                            }
                            if has(InfoSubset::POS_ID) {
                                e.insert("pos_id".into(), json!(wi.pos_id()));
                            }
                            if has(InfoSubset::NORMALIZED_FORM | InfoSubset::SURFACE) {
                                e.insert("normalized_form".into(), json!(wi.normalized_form()));
                            }
                            if has(InfoSubset::DIC_FORM_WORD_ID | InfoSubset::SURFACE) {
                                e.insert("dictionary_form_word_id".into(), json!(wi.dictionary_form_word_id()));
                                e.insert("dictionary_form".into(), json!(wi.dictionary_form()));
                            }
                            if has(InfoSubset::READING_FORM | InfoSubset::SURFACE) {
                                e.insert("reading_form".into(), json!(wi.reading_form()));
                            }
                            if has(InfoSubset::SPLIT_A) {
                                e.insert("a_unit_split".into(), json!(raw(wi.a_unit_split())));
                            }
                            if has(InfoSubset::SPLIT_B) {
                                e.insert("b_unit_split".into(), json!(raw(wi.b_unit_split())));
                            }
                            if has(InfoSubset::WORD_STRUCTURE) {
                                e.insert("word_structure".into(), json!(raw(wi.word_structure())));
                            }
                            if has(InfoSubset::SYNONYM_GROUP_ID) {
                                e.insert("synonym_group_ids".into(), json!(wi.synonym_group_ids()));
                            }
                            ops.push(json!({"op":"word_info","list":src,"of_fill":sl.fill,"idx":idx,"expect":Value::Object(e)}));
                        }
                    }
                }
                9 => {
                    // Dictionary.pos_of(id): inside and outside the table
                    let n = dict.grammar().pos_list.len();
                    let id = match rng.below(4) {
                        0 => n + rng.below(3),
                        1 => 65535 + rng.below(3),
                        _ => rng.below(n.max(1)),
                    };
                    let e = dict.grammar().pos_list.get(id).cloned();
                    ops.push(json!({"op":"pos_of","id":id,"expect":e}));
                }
                10 => {
                    // an iterator kept alive across later calls (the list may be refilled through out= meanwhile):
                    // whatever it yields afterwards must be a usable morpheme of the list
                    if rng.chance(1, 2) {
                        ops.push(json!({"op":"iter_hold","list":rng.below(n_slots),"consume":rng.below(4)}));
                    } else {
                        ops.push(json!({"op":"iter_resume","list":rng.below(n_slots)}));
                    }
                }
                _ => {
                    // misuse that must raise, not crash
                    let kind = ["bad_mode", "index_out_of_range", "bad_fields"][rng.below(3)];
                    ops.push(json!({"op":"misuse","kind":kind,"t":rng.below(ntok),"list":rng.below(n_slots)}));
                }
            }
        }

        if with_pretok {
            // calls of the shared SudachiPreTokenizer objects (mode C), with and without a handler
            let mut prev_text: Option<(String, bool)> = None;
            let mut at = rng.below(ops.len() + 1);
            for _ in 0..1 + rng.below(4) {
                // the same text may arrive twice in a row, also the empty piece
                let (text, handler) = match (&prev_text, rng.below(4)) {
                    (Some((t, h)), 0) => (t.clone(), *h),
                    (_, 1) => (String::new(), rng.chance(1, 2)),
                    _ => (gen_text(&mut rng, &spec.keys).replace('\u{0}', ""), rng.chance(1, 2)),
                };
                prev_text = Some((text.clone(), handler));
                let subset = if handler { InfoSubset::all() } else { InfoSubset::empty() };
                if let Ok(Ok(list)) = crate::harness::catch(|| fresh_analyse(&dict, Mode::C, Some(subset), &text)) {
                    let surfaces: Vec<String> = list.iter().map(|m| m.surface().to_string()).collect();
                    // consecutive positions so that repeated texts really are consecutive calls of this thread
                    at = at.min(ops.len());
                    ops.insert(at, json!({"op":"pretok","text":text,"handler":handler,"expect":surfaces}));
                    at += 1;
                }
            }
        }
        if rng.chance(1, 6) {
            // Dictionary.close() and then every kind of object is used once more: exceptions are fine, a dead
            // interpreter is not (sequential scripts only: the executor skips it when the dictionary is shared)
            ops.push(json!({"op":"close_then_use","t":rng.below(ntok)}));
        }
        let script = json!({
            "script": si, "seed": seed, "dir": built.dir.display().to_string(), "config": cfg,
            "tokenizers": toks.iter().map(|t| json!({"mode": t.mode, "fields": t.fields, "projection": t.kw_projection})).collect::<Vec<_>>(),
            "n_slots": n_slots, "ops": ops,
        });
        Ok(script)
    }
}

pub fn generate(seed: u64, n_scripts: usize, out: &Path, only: Option<usize>) -> Result<usize, String> {
    std::fs::create_dir_all(out).map_err(|e| e.to_string())?;
    let mut lines = String::new();
    let per_world = 6;
    let mut world: Option<(WorldSpec, BuiltWorld, String)> = None;
    let mut total_ops = 0;
    for si in 0..n_scripts {
        if let Some(o) = only {
            if si != o {
                continue;
            }
        }
        if si % per_world == 0 || only.is_some() {
            let mut wr = Rng::derive(seed, "pygen/world", (si / per_world) as u64);
            let full = wr.chance(1, 2);
            let (spec, _) = gen_world(&mut wr, &WorldGenOpts { max_users: 2, max_rows: 40, full_plugins: full });
            let dir = out.join(format!("w{}", si / per_world));
            let built = build_world(&spec, &dir)?;
            let cfg = python_config(&spec, &built)?;
            world = Some((spec, built, cfg));
        }
        let (spec, built, cfg) = world.as_ref().unwrap();
        let mut rng = Rng::derive(seed, "pygen/script", si as u64);
        let nops = 5 + Rng::derive(seed, "pygen/nops", si as u64).below(30);
        let script = gen_script(&mut rng, spec, built, cfg, si, seed, nops, si % 3 == 0)?;
        total_ops += script["ops"].as_array().map(|a| a.len()).unwrap_or(0);
        lines.push_str(&script.to_string());
        lines.push('\n');
    }
    std::fs::write(out.join("scripts.jsonl"), lines).map_err(|e| e.to_string())?;
    Ok(total_ops)
}


/// C18, Python-thread clause: cases of 2-3 thread scripts over ONE Dictionary whose configuration
/// also lists the three no-op seam plugins (sim points inside do_tokenize).
pub fn generate_threads(seed: u64, n_cases: usize, out: &Path, seam_dir: &str, only: Option<usize>) -> Result<usize, String> {
    std::fs::create_dir_all(out).map_err(|e| e.to_string())?;
    let mut lines = String::new();
    for ci in 0..n_cases {
        if let Some(o) = only {
            if ci != o {
                continue;
            }
        }
        let mut wr = Rng::derive(seed, "pythreads/world", ci as u64);
        let full = wr.chance(2, 3);
        let (spec, _) = gen_world(&mut wr, &WorldGenOpts { max_users: 2, max_rows: 30, full_plugins: full });
        let dir = out.join(format!("t{}", ci));
        let built = build_world(&spec, &dir)?;
        let plain_cfg = python_config(&spec, &built)?;
        let mut cfg: Value = serde_json::from_str(&plain_cfg).map_err(|e| e.to_string())?;
        let seam = |n: &str| json!({"class": format!("{}/libseam_{}.so", seam_dir, n)});
        cfg["inputTextPlugin"].as_array_mut().unwrap().insert(0, seam("input"));
        cfg["oovProviderPlugin"].as_array_mut().unwrap().insert(0, seam("oov"));
        cfg["pathRewritePlugin"].as_array_mut().unwrap().push(seam("path"));
        let mut rng = Rng::derive(seed, "pythreads/case", ci as u64);
        let nt = 2 + rng.below(2);
        let mut threads = vec![];
        for t in 0..nt {
            let mut r2 = Rng::derive(seed, "pythreads/script", (ci * 8 + t) as u64);
            let n = 2 + r2.below(6);
            threads.push(gen_script(&mut r2, &spec, &built, &plain_cfg, ci * 8 + t, seed, n, true)?);
        }
        let case = json!({"case": ci, "seed": seed, "dir": built.dir.display().to_string(), "config": cfg.to_string(),
                          "threads": threads, "sched_seed": rng.next_u64() >> 1});
        lines.push_str(&case.to_string());
        lines.push('\n');
    }
    std::fs::write(out.join("threads.jsonl"), lines).map_err(|e| e.to_string())?;
    Ok(n_cases)
}
