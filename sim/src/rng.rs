//! The only source of randomness in the simulator: xoshiro256** seeded through splitmix64.
//! Every generated operation, fault and schedule choice is drawn from an `Rng` derived from
//! (VERIF_SEED, engine name, run index). Nothing in here reads a clock or OS entropy.

#[derive(Clone, Debug)]
pub struct Rng {
    s: [u64; 4],
}

pub fn splitmix64(x: &mut u64) -> u64 {
    *x = x.wrapping_add(0x9E37_79B9_7F4A_7C15);
    let mut z = *x;
    z = (z ^ (z >> 30)).wrapping_mul(0xBF58_476D_1CE4_E5B9);
    z = (z ^ (z >> 27)).wrapping_mul(0x94D0_49BB_1331_11EB);
    z ^ (z >> 31)
}

/// FNV-1a, used to fold engine names / strings into seeds and to build signatures.
pub fn fnv1a(data: &[u8]) -> u64 {
    let mut h: u64 = 0xcbf2_9ce4_8422_2325;
    for b in data {
        h ^= *b as u64;
        h = h.wrapping_mul(0x0000_0100_0000_01B3);
    }
    h
}

pub fn fnv_mix(h: u64, v: u64) -> u64 {
    let mut h = h;
    for b in v.to_le_bytes() {
        h ^= b as u64;
        h = h.wrapping_mul(0x0000_0100_0000_01B3);
    }
    h
}

impl Rng {
    pub fn new(seed: u64) -> Rng {
        let mut x = seed;
        let s = [
            splitmix64(&mut x),
            splitmix64(&mut x),
            splitmix64(&mut x),
            splitmix64(&mut x),
        ];
        Rng { s }
    }

    /// Derive the PRNG of run `idx` of stream `name` under `seed`.
    pub fn derive(seed: u64, name: &str, idx: u64) -> Rng {
        let mut x = seed ^ fnv1a(name.as_bytes()).rotate_left(17) ^ idx.wrapping_mul(0xD6E8_FEB8_6659_FD93);
        let a = splitmix64(&mut x);
        Rng::new(a ^ idx)
    }

    pub fn next_u64(&mut self) -> u64 {
        let result = self.s[1].wrapping_mul(5).rotate_left(7).wrapping_mul(9);
        let t = self.s[1] << 17;
        self.s[2] ^= self.s[0];
        self.s[3] ^= self.s[1];
        self.s[1] ^= self.s[2];
        self.s[0] ^= self.s[3];
        self.s[2] ^= t;
        self.s[3] = self.s[3].rotate_left(45);
        result
    }

    /// uniform in [0, n) ; n must be > 0
    pub fn below(&mut self, n: usize) -> usize {
        debug_assert!(n > 0);
        (self.next_u64() % (n as u64)) as usize
    }

    /// uniform in [lo, hi] inclusive
    pub fn range(&mut self, lo: i64, hi: i64) -> i64 {
        debug_assert!(lo <= hi);
        let span = (hi - lo) as u64 + 1;
        lo + (self.next_u64() % span) as i64
    }

    pub fn chance(&mut self, num: u32, den: u32) -> bool {
        (self.next_u64() % den as u64) < num as u64
    }

    pub fn pick<'a, T>(&mut self, items: &'a [T]) -> &'a T {
        &items[self.below(items.len())]
    }

    /// weighted choice, returns index
    pub fn weighted(&mut self, weights: &[u32]) -> usize {
        let total: u64 = weights.iter().map(|w| *w as u64).sum();
        debug_assert!(total > 0);
        let mut x = self.next_u64() % total;
        for (i, w) in weights.iter().enumerate() {
            if x < *w as u64 {
                return i;
            }
            x -= *w as u64;
        }
        weights.len() - 1
    }

    pub fn shuffle<T>(&mut self, items: &mut [T]) {
        for i in (1..items.len()).rev() {
            let j = self.below(i + 1);
            items.swap(i, j);
        }
    }
}
