//! cligen (C19, CliSim): generated multi-line inputs x CLI options with the stdout the library
//! prescribes: each input line without its terminator, per sentence (with sentence splitting on)
//! the morphemes in the README's column format or as space-joined surfaces.

use crate::dictfac::build_world;
use crate::rng::Rng;
use crate::toksim::{fresh_analyse, mode_of};
use crate::world::{gen_text, gen_world, WorldGenOpts};
use serde_json::json;
use std::path::Path;
use sudachi::analysis::stateless_tokenizer::DictionaryAccess;
use sudachi::sentence_splitter::{SentenceSplitter, SplitSentences};

pub fn generate(seed: u64, n_cases: usize, out: &Path, only: Option<usize>) -> Result<usize, String> {
    std::fs::create_dir_all(out).map_err(|e| e.to_string())?;
    let mut lines_out = String::new();
    let per_world = 8;
    let mut world = None;
    for ci in 0..n_cases {
        if let Some(o) = only {
            if ci != o {
                continue;
            }
        }
        if ci % per_world == 0 || only.is_some() {
            let mut wr = Rng::derive(seed, "cligen/world", (ci / per_world) as u64);
            let full = wr.chance(1, 2);
            let (spec, _) = gen_world(&mut wr, &WorldGenOpts { max_users: 1, max_rows: 40, full_plugins: full });
            let dir = out.join(format!("w{}", ci / per_world));
            let built = build_world(&spec, &dir)?;
            std::fs::write(dir.join("system.dic"), &built.sys_bytes).map_err(|e| e.to_string())?;
            let mut users = vec![];
            for (i, u) in built.user_bytes.iter().enumerate() {
                let p = dir.join(format!("user{}.dic", i));
                std::fs::write(&p, u).map_err(|e| e.to_string())?;
                users.push(p.display().to_string());
            }
            let mut cfg = spec.config.clone();
            cfg["systemDict"] = json!(dir.join("system.dic").display().to_string());
            cfg["userDict"] = json!(users);
            std::fs::write(dir.join("sudachi.json"), cfg.to_string()).map_err(|e| e.to_string())?;
            world = Some((spec, built));
        }
        let (spec, built) = world.as_ref().unwrap();
        let dict = built.dict.clone();
        let mut rng = Rng::derive(seed, "cligen/case", ci as u64);
        let mode = ["A", "B", "C"][rng.below(3)];
        let wakati = rng.chance(1, 3);
        let all = !wakati && rng.chance(1, 2);
        // a physical line longer than any I/O window, made of many short sentences (only with sentence splitting:
        // without it the library itself refuses the text)
        let long_line = rng.chance(1, 15);
        let split = long_line || rng.chance(2, 3);
        // input file: lines with various terminators
        let nlines = 1 + rng.below(8);
        let mut input = String::new();
        let mut texts: Vec<String> = vec![];
        for li in 0..nlines {
            let mut t = match rng.below(8) {
                0 => String::new(),
                1 => {
                    let mut s = gen_text(&mut rng, &spec.keys);
                    s.push('。');
                    s.push_str(&gen_text(&mut rng, &spec.keys));
                    s
                }
                2 => {
                    // sentence ends other than the ideographic full stop: runs of middle dots, doubled <br>,
                    // ASCII / full-width dots next to letters and digits, quotes followed by と
                    const BREAKS: [&str; 16] = ["・・・", "・・", "・・・・", "<br><br>", "<BR><br>", "<br>", "…", "?", "！", ".", "．", "1.", "a．", "」と", "！です", "♪ "];
                    let mut s = String::new();
                    for _ in 0..1 + rng.below(4) {
                        s.push_str(&gen_text(&mut rng, &spec.keys));
                        s.push_str(BREAKS[rng.below(BREAKS.len())]);
                    }
                    if rng.chance(1, 2) {
                        s.push_str(&gen_text(&mut rng, &spec.keys));
                    }
                    s
                }
                _ => gen_text(&mut rng, &spec.keys),
            };
            if long_line && li == 0 {
                // total length around 2^16 bytes; the terminator may straddle the mark
                let unit = ["あ。", "a.", "東京。", "𠮟!"][rng.below(4)];
                let target = 65536 - 8 + rng.below(16);
                let mut s = String::with_capacity(target + 8);
                while s.len() + unit.len() <= target {
                    s.push_str(unit);
                }
                while s.len() < target {
                    s.push('x');
                }
                t = s;
            }
            t = t.replace('\u{0}', "").replace('\n', "").replace('\r', "");
            let last = li + 1 == nlines;
            let term = match rng.below(6) {
                0 => "\r\n",
                1 if last => "",
                _ => "\n",
            };
            // a lone CR inside the line is part of the text
            if rng.chance(1, 20) {
                t.push('\r');
                t.push('x');
            }
            // ... also at the very end of a last line that has no line feed (only LF terminates a line)
            if last && term.is_empty() && rng.chance(1, 2) {
                t.push('\r');
            }
            input.push_str(&t);
            input.push_str(term);
            if term.is_empty() && t.is_empty() {
                // nothing is read for an empty unterminated tail
            } else {
                texts.push(t);
            }
        }
        // expected stdout
        let mut exp = String::new();
        let mut fail = false;
        for t in &texts {
            let sentences: Vec<String> = if split {
                let sp = SentenceSplitter::new().with_checker(dict.lexicon());
                sp.split(t).map(|(_, s)| s.to_string()).collect()
            } else {
                vec![t.clone()]
            };
            for s in sentences {
                match crate::harness::catch(|| fresh_analyse(&dict, mode_of(mode), None, &s)).unwrap_or_else(|p| Err(p.msg)) {
                    Err(_) => {
                        fail = true;
                    }
                    Ok(list) => {
                        if wakati {
                            let v: Vec<String> = list.iter().map(|m| m.surface().to_string()).collect();
                            exp.push_str(&v.join(" "));
                            exp.push('\n');
                        } else {
                            for m in list.iter() {
                                exp.push_str(&m.surface());
                                exp.push('\t');
                                exp.push_str(&m.part_of_speech().join(","));
                                exp.push('\t');
                                exp.push_str(m.normalized_form());
                                if all {
                                    exp.push_str(&format!(
                                        "\t{}\t{}\t{}\t{:?}",
                                        m.dictionary_form(),
                                        m.reading_form(),
                                        m.dictionary_id(),
                                        m.synonym_group_ids()
                                    ));
                                    if m.is_oov() {
                                        exp.push_str("\t(OOV)");
                                    }
                                }
                                exp.push('\n');
                            }
                            exp.push_str("EOS\n");
                        }
                    }
                }
            }
        }
        if fail {
            continue; // a text the library itself rejects: not a CLI matter
        }
        let mut args: Vec<String> = vec!["-m".into(), mode.into()];
        if wakati {
            args.push("-w".into());
        }
        if all {
            args.push("-a".into());
        }
        if !split {
            args.push("--split-sentences".into());
            args.push("no".into());
        } else if rng.chance(1, 2) {
            args.push("--split-sentences".into());
            args.push("yes".into());
        }
        let case = json!({"case": ci, "seed": seed, "dir": built.dir.display().to_string(), "args": args, "input": input, "expected": exp,
                          "shim_seed": rng.next_u64() % 1_000_000});
        lines_out.push_str(&case.to_string());
        lines_out.push('\n');
    }
    std::fs::write(out.join("cases.jsonl"), lines_out).map_err(|e| e.to_string())?;
    Ok(n_cases)
}
