//! stackprobe (C18): worker threads with the *default* stack size (what `std::thread::spawn` gives a
//! user) analyse the longest inputs the library accepts, made of as many morphemes as possible,
//! against one shared dictionary. Every thread must obtain what a run with ample stack obtains.
//! One scenario per process: a stack overflow kills the process, which is what the dispatcher
//! then reports (`./check` treats death by signal as the violation).

use crate::dictfac::{compile_system, load_dict, make_config, write_resources, FIXED_TIME};
use crate::rng::Rng;
use crate::world::{gen_world, WorldGenOpts};
use serde_json::{json, Value};
use std::path::Path;
use std::sync::Arc;
use sudachi::analysis::stateful_tokenizer::StatefulTokenizer;
use sudachi::analysis::Mode;
use sudachi::dic::dictionary::JapaneseDictionary;
use sudachi::dic::storage::Storage;
use sudachi::prelude::MorphemeList;

/// (begin, end, word id) of every morpheme
fn analyse(dict: &Arc<JapaneseDictionary>, mode: Mode, text: &str) -> Result<Vec<(u32, u32, u32)>, String> {
    let mut tok = StatefulTokenizer::create(dict.clone(), false, mode);
    tok.reset().push_str(text);
    tok.do_tokenize().map_err(|e| format!("{}", e))?;
    let mut l = MorphemeList::empty(dict.clone());
    l.collect_results(&mut tok).map_err(|e| format!("{}", e))?;
    Ok(l.iter().map(|m| (m.begin() as u32, m.end() as u32, m.word_id().as_raw())).collect())
}

pub fn run(seed: u64, case: u64, work: &Path) -> (i32, Value) {
    let mut rng = Rng::derive(seed, "stackprobe", case);
    // the plugins, character classes and unknown-word settings of a generated world; the lexicon is replaced by
    // one in which single characters win, so that a text has as many morphemes as it has characters
    let full = rng.chance(1, 2);
    let (mut spec, _) = gen_world(&mut rng, &WorldGenOpts { max_users: 0, max_rows: 6, full_plugins: full });
    spec.config["pathRewritePlugin"] = json!([]);
    spec.config["connectionCostPlugin"] = json!([]);
    spec.matrix = "1 1\n0 0 0\n".to_string();
    // (letters cannot start a word inside a run of letters, so one-byte units are digits and punctuation)
    let unit = ["(", ".", "。", "あ", "1", "1", "("][rng.below(7)];
    // the generated rows stay (plugins name their parts of speech) but can never win; connection ids fit the 1x1 matrix
    let mut csv = String::new();
    for l in spec.system_csv.lines() {
        let mut f = crate::buildsim::split_csv_line(l);
        if f.len() >= 19 {
            if f[1] != "-1" {
                f[1] = "0".into();
                f[2] = "0".into();
            }
            f[3] = "10000".into();
            csv.push_str(&f.iter().map(|x| crate::buildsim::quote(x)).collect::<Vec<_>>().join(","));
            csv.push('\n');
        }
    }
    for w in ["(", ".", "。", "あ", "1"] {
        let pos = if w == "。" { "補助記号,句点,*,*,*,*" } else { "名詞,普通名詞,一般,*,*,*" };
        csv.push_str(&format!("{0},0,0,-200,{0},{1},{0},{0},*,A,*,*,*,*\n", w, pos));
    }
    spec.system_csv = csv;
    spec.user_csv.clear();
    // unknown words must not be cheaper than the one-character entries
    spec.unk_def = spec
        .unk_def
        .lines()
        .map(|l| {
            let f: Vec<&str> = l.split(',').collect();
            if f.len() > 3 && !l.starts_with('#') {
                let mut g: Vec<String> = f.iter().map(|x| x.to_string()).collect();
                g[1] = "0".into();
                g[2] = "0".into();
                g[3] = "20000".into();
                g.join(",")
            } else {
                l.to_string()
            }
        })
        .collect::<Vec<_>>()
        .join("\n")
        + "\n";
    // OOV plugins refer to connection ids: 1x1 matrix => ids 0
    if let Some(arr) = spec.config["oovProviderPlugin"].as_array_mut() {
        for p in arr.iter_mut() {
            if p.get("leftId").is_some() {
                p["leftId"] = json!(0);
                p["rightId"] = json!(0);
            }
        }
    }
    let dir = work.join(format!("sp{}", case));
    let sys = match compile_system(spec.matrix.as_bytes(), &[spec.system_csv.as_bytes()], FIXED_TIME, "stackprobe") {
        Ok(b) => b,
        Err(e) => return (2, json!({"ok": false, "class": "harness-error", "site": "compile", "detail": {"error": e}})),
    };
    if let Err(e) = write_resources(&spec, &dir) {
        return (2, json!({"ok": false, "class": "harness-error", "site": "resources", "detail": {"error": e}}));
    }
    let dict = match make_config(&spec, &dir).and_then(|cfg| load_dict(&cfg, Storage::Owned(sys), vec![])) {
        Ok(d) => Arc::new(d),
        Err(e) => return (2, json!({"ok": false, "class": "harness-error", "site": "load", "detail": {"error": e}})),
    };
    // texts: the longest accepted input (49149 bytes) and a few shorter ones
    let max_bytes = 49149usize;
    let nthreads = 2 + rng.below(2);
    let mode = [Mode::A, Mode::B, Mode::C][rng.below(3)];
    let mut texts = vec![];
    for t in 0..nthreads {
        let bytes = if t == 0 { max_bytes } else { max_bytes - rng.below(20000) };
        let n = bytes / unit.len();
        texts.push(unit.repeat(n));
    }
    // reference on a thread with ample stack
    let expected: Vec<Result<Vec<(u32, u32, u32)>, String>> = {
        let d = dict.clone();
        let tx = texts.clone();
        std::thread::Builder::new()
            .stack_size(1 << 30)
            .spawn(move || tx.iter().map(|t| analyse(&d, mode, t)).collect())
            .unwrap()
            .join()
            .unwrap()
    };
    let morphemes: usize = expected.iter().map(|e| e.as_ref().map(|v| v.len()).unwrap_or(0)).sum();
    // the subjects: plain std::thread::spawn, running truly in parallel (no shared mutable state is promised)
    let mut hs = vec![];
    for t in 0..nthreads {
        let d = dict.clone();
        let text = texts[t].clone();
        hs.push(std::thread::spawn(move || analyse(&d, mode, &text)));
    }
    let mut bad = None;
    for (t, h) in hs.into_iter().enumerate() {
        match h.join() {
            Ok(r) => {
                if r != expected[t] {
                    bad = Some(json!({"thread": t, "got_len": r.as_ref().map(|v| v.len()).ok(), "expected_len": expected[t].as_ref().map(|v| v.len()).ok(),
                                      "got_err": r.as_ref().err(), "expected_err": expected[t].as_ref().err()}));
                }
            }
            Err(_) => bad = Some(json!({"thread": t, "panic": true})),
        }
    }
    let info = json!({"first": expected[0].as_ref().map(|v| v.iter().take(3).cloned().collect::<Vec<_>>()).ok(), "unit": unit, "threads": nthreads, "morphemes": morphemes, "bytes": texts.iter().map(|t| t.len()).collect::<Vec<_>>()});
    match bad {
        Some(d) => (1, json!({"ok": false, "class": "result-differs-from-sequential", "site": "default-stack-thread", "detail": d, "info": info})),
        None => (0, json!({"ok": true, "info": info})),
    }
}
