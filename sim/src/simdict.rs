//! `SimDict`: the seam between the real tokenizer and the simulator.
//!
//! `StatefulTokenizer<D>` is generic over `D: DictionaryAccess`. `SimDict` forwards `grammar()`
//! and `lexicon()` to the real `JapaneseDictionary` and hands out *wrapper plugins* which
//! delegate to the real plugin objects and, on the simulator's command, fail before/after
//! delegating, fail from inside an edit batch, return "no candidates", or give the baton back
//! to the scheduler. Every injected behaviour is legal for a third-party plugin under the
//! plugin trait contracts.

use std::sync::atomic::{AtomicU64, AtomicUsize, Ordering};
use std::sync::{Arc, Mutex};

use serde::{Deserialize, Serialize};
use sudachi::analysis::created::CreatedWords;
use sudachi::analysis::lattice::Lattice;
use sudachi::analysis::node::ResultNode;
use sudachi::analysis::stateless_tokenizer::DictionaryAccess;
use sudachi::analysis::Node;
use sudachi::config::Config;
use sudachi::dic::dictionary::JapaneseDictionary;
use sudachi::dic::grammar::Grammar;
use sudachi::dic::lexicon_set::LexiconSet;
use sudachi::error::{SudachiError, SudachiResult};
use sudachi::input_text::{InputBuffer, InputEditor};
use sudachi::plugin::input_text::InputTextPlugin;
use sudachi::plugin::oov::OovProviderPlugin;
use sudachi::plugin::path_rewrite::PathRewritePlugin;

#[derive(Clone, Debug, Serialize, Deserialize, PartialEq)]
#[serde(tag = "seam", rename_all = "snake_case")]
pub enum Fault {
    /// input-text plugin `index` (modulo number of plugins; if none configured the fault cannot fire)
    /// fails. when = "before" | "after" | "in_edit" (pushes an edit, then returns Err from inside
    /// the edit closure: the documented rollback path)
    InputText { index: usize, when: String },
    /// the `nth` OOV-provider call of the analysis fails
    Oov { nth: usize },
    /// every OOV provider returns no candidates from char position `from` on
    OovMute { from: usize },
    /// path-rewrite plugin `index` fails; when = "before" | "after"
    PathRewrite { index: usize, when: String },
}

/// scheduler hook: called by the wrappers at every sim point when attached
pub trait Yielder: Send + Sync {
    fn point(&self, kind: u8);
}

#[derive(Default)]
pub struct Control {
    armed: Mutex<Option<Fault>>,
    fired: AtomicUsize,
    fired_stage: AtomicUsize,
    oov_calls: AtomicUsize,
    pub points: AtomicU64,
    yielder: Mutex<Option<Arc<dyn Yielder>>>,
}

pub const STAGE_INPUT: usize = 1;
pub const STAGE_OOV: usize = 2;
pub const STAGE_OOV_MUTE: usize = 3;
pub const STAGE_PATH: usize = 4;

impl Control {
    pub fn arm(&self, f: Option<Fault>) {
        *self.armed.lock().unwrap() = f;
        self.fired.store(0, Ordering::SeqCst);
        self.fired_stage.store(0, Ordering::SeqCst);
        self.oov_calls.store(0, Ordering::SeqCst);
    }
    pub fn begin_analysis(&self) {
        self.oov_calls.store(0, Ordering::SeqCst);
        self.fired.store(0, Ordering::SeqCst);
        self.fired_stage.store(0, Ordering::SeqCst);
    }
    /// number of times the armed fault fired during the last analysis
    pub fn fired(&self) -> usize {
        self.fired.load(Ordering::SeqCst)
    }
    pub fn fired_stage(&self) -> usize {
        self.fired_stage.load(Ordering::SeqCst)
    }
    pub fn set_yielder(&self, y: Option<Arc<dyn Yielder>>) {
        *self.yielder.lock().unwrap() = y;
    }
    fn point(&self, kind: u8) {
        self.points.fetch_add(1, Ordering::Relaxed);
        let y = self.yielder.lock().unwrap().clone();
        if let Some(y) = y {
            y.point(kind);
        }
    }
    fn fire(&self, stage: usize) {
        self.fired.fetch_add(1, Ordering::SeqCst);
        self.fired_stage.store(stage, Ordering::SeqCst);
    }
    fn armed(&self) -> Option<Fault> {
        self.armed.lock().unwrap().clone()
    }
}

fn injected() -> SudachiError {
    // any error value will do: the contract only says "returns SudachiResult"
    SudachiError::InvalidPartOfSpeech("injected by simulator".to_string())
}

pub struct SimDict {
    inner: Arc<JapaneseDictionary>,
    input: Vec<Box<dyn InputTextPlugin + Sync + Send>>,
    oov: Vec<Box<dyn OovProviderPlugin + Sync + Send>>,
    path: Vec<Box<dyn PathRewritePlugin + Sync + Send>>,
    pub ctl: Arc<Control>,
}

impl SimDict {
    pub fn new(inner: Arc<JapaneseDictionary>) -> SimDict {
        let ctl = Arc::new(Control::default());
        let n_in = inner.input_text_plugins().len();
        let n_oov = inner.oov_provider_plugins().len();
        let n_path = inner.path_rewrite_plugins().len();
        let mut input: Vec<Box<dyn InputTextPlugin + Sync + Send>> = vec![];
        for k in 0..n_in {
            input.push(Box::new(InWrap {
                inner: inner.clone(),
                k,
                n: n_in,
                ctl: ctl.clone(),
            }));
        }
        let mut oov: Vec<Box<dyn OovProviderPlugin + Sync + Send>> = vec![];
        for k in 0..n_oov {
            oov.push(Box::new(OovWrap {
                inner: inner.clone(),
                k,
                ctl: ctl.clone(),
            }));
        }
        let mut path: Vec<Box<dyn PathRewritePlugin + Sync + Send>> = vec![];
        for k in 0..n_path {
            path.push(Box::new(PathWrap {
                inner: inner.clone(),
                k,
                n: n_path,
                ctl: ctl.clone(),
            }));
        }
        SimDict {
            inner,
            input,
            oov,
            path,
            ctl,
        }
    }
    pub fn real(&self) -> &Arc<JapaneseDictionary> {
        &self.inner
    }
}

impl DictionaryAccess for SimDict {
    fn grammar(&self) -> &Grammar<'_> {
        // the tokenizer fetches the grammar when it builds the input and the lattice: one more sim point
        self.ctl.point(8);
        self.inner.grammar()
    }
    fn lexicon(&self) -> &LexiconSet<'_> {
        // fetched before lattice construction, best-path resolution and splitting
        self.ctl.point(9);
        self.inner.lexicon()
    }
    fn input_text_plugins(&self) -> &[Box<dyn InputTextPlugin + Sync + Send>] {
        &self.input
    }
    fn oov_provider_plugins(&self) -> &[Box<dyn OovProviderPlugin + Sync + Send>] {
        &self.oov
    }
    fn path_rewrite_plugins(&self) -> &[Box<dyn PathRewritePlugin + Sync + Send>] {
        &self.path
    }
}

struct InWrap {
    inner: Arc<JapaneseDictionary>,
    k: usize,
    n: usize,
    ctl: Arc<Control>,
}

impl InputTextPlugin for InWrap {
    fn set_up(&mut self, _s: &serde_json::Value, _c: &Config, _g: &Grammar) -> SudachiResult<()> {
        Ok(())
    }

    fn rewrite(&self, input: &mut InputBuffer) -> SudachiResult<()> {
        self.ctl.point(1);
        let fault = match self.ctl.armed() {
            Some(Fault::InputText { index, when }) if index % self.n == self.k => Some(when),
            _ => None,
        };
        if let Some(w) = &fault {
            if w == "before" {
                self.ctl.fire(STAGE_INPUT);
                return Err(injected());
            }
            if w == "in_edit" {
                self.ctl.fire(STAGE_INPUT);
                // push an edit, then fail: the buffer must roll the batch back
                let r = input.with_editor(|b, mut e| {
                    let cur = b.current();
                    if let Some(c) = cur.chars().next() {
                        e.replace_ref(0..c.len_utf8(), "injected-edit-must-be-rolled-back");
                    }
                    if false {
                        return Ok(e);
                    }
                    Err(injected())
                });
                return r;
            }
        }
        let r = self.inner.input_text_plugins()[self.k].rewrite(input);
        self.ctl.point(2);
        if let Some(w) = &fault {
            if w == "after" {
                self.ctl.fire(STAGE_INPUT);
                r?;
                return Err(injected());
            }
        }
        r
    }

    #[allow(deprecated)]
    fn rewrite_impl<'a>(
        &'a self,
        _input: &InputBuffer,
        edit: InputEditor<'a>,
    ) -> SudachiResult<InputEditor<'a>> {
        // never called: `rewrite` is overridden and delegates to the real plugin's `rewrite`
        Ok(edit)
    }
}

struct OovWrap {
    inner: Arc<JapaneseDictionary>,
    k: usize,
    ctl: Arc<Control>,
}

impl OovProviderPlugin for OovWrap {
    fn set_up(&mut self, _s: &serde_json::Value, _c: &Config, _g: &mut Grammar) -> SudachiResult<()> {
        Ok(())
    }

    fn provide_oov(
        &self,
        input_text: &InputBuffer,
        offset: usize,
        other_words: CreatedWords,
        result: &mut Vec<Node>,
    ) -> SudachiResult<usize> {
        self.ctl.point(3);
        let call = self.ctl.oov_calls.fetch_add(1, Ordering::SeqCst);
        match self.ctl.armed() {
            Some(Fault::Oov { nth }) if nth == call => {
                self.ctl.fire(STAGE_OOV);
                return Err(injected());
            }
            Some(Fault::OovMute { from }) if offset >= from => {
                self.ctl.fire(STAGE_OOV_MUTE);
                return Ok(0);
            }
            _ => {}
        }
        let r = self.inner.oov_provider_plugins()[self.k].provide_oov(input_text, offset, other_words, result);
        self.ctl.point(4);
        r
    }
}

struct PathWrap {
    inner: Arc<JapaneseDictionary>,
    k: usize,
    n: usize,
    ctl: Arc<Control>,
}

impl PathRewritePlugin for PathWrap {
    fn set_up(&mut self, _s: &serde_json::Value, _c: &Config, _g: &Grammar) -> SudachiResult<()> {
        Ok(())
    }

    fn rewrite(&self, text: &InputBuffer, path: Vec<ResultNode>, lattice: &Lattice) -> SudachiResult<Vec<ResultNode>> {
        self.ctl.point(5);
        let fault = match self.ctl.armed() {
            Some(Fault::PathRewrite { index, when }) if index % self.n == self.k => Some(when),
            _ => None,
        };
        if let Some(w) = &fault {
            if w == "before" {
                self.ctl.fire(STAGE_PATH);
                return Err(injected());
            }
        }
        let r = self.inner.path_rewrite_plugins()[self.k].rewrite(text, path, lattice);
        self.ctl.point(6);
        if let Some(w) = &fault {
            if w == "after" {
                self.ctl.fire(STAGE_PATH);
                r?;
                return Err(injected());
            }
        }
        r
    }
}
