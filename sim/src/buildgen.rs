//! buildgen (C06 groups b/c): valid worlds as files for the real front ends (`sudachi build`,
//! `sudachipy.build_system_dic/build_user_dic`) plus the reference output size from the library.

use crate::dictfac::{compile_system, compile_user, FIXED_TIME};
use crate::rng::Rng;
use crate::world::{gen_world, WorldGenOpts};
use serde_json::json;
use std::path::Path;

pub fn generate(seed: u64, n: usize, out: &Path) -> Result<usize, String> {
    std::fs::create_dir_all(out).map_err(|e| e.to_string())?;
    let mut lines = String::new();
    for i in 0..n {
        let mut rng = Rng::derive(seed, "buildgen", i as u64);
        let (spec, _) = loop {
            let (s, r) = gen_world(&mut rng, &WorldGenOpts { max_users: 1, max_rows: 30, full_plugins: false });
            if !s.user_csv.is_empty() || rng.chance(1, 2) {
                break (s, r);
            }
        };
        let dir = out.join(format!("b{}", i));
        std::fs::create_dir_all(&dir).map_err(|e| e.to_string())?;
        std::fs::write(dir.join("matrix.def"), &spec.matrix).map_err(|e| e.to_string())?;
        std::fs::write(dir.join("lex.csv"), &spec.system_csv).map_err(|e| e.to_string())?;
        // half of the worlds give the lexicon to the front ends as two files whose names sort in the opposite order
        // (word ids are line numbers over the files *as listed*)
        let rows: Vec<&str> = spec.system_csv.split_inclusive('\n').collect();
        let lex_files: Vec<String> = if rows.len() >= 2 && rng.chance(1, 2) {
            let k = 1 + rng.below(rows.len() - 1);
            std::fs::write(dir.join("part_b.csv"), rows[..k].concat()).map_err(|e| e.to_string())?;
            std::fs::write(dir.join("part_a.csv"), rows[k..].concat()).map_err(|e| e.to_string())?;
            vec!["part_b.csv".into(), "part_a.csv".into()]
        } else {
            vec!["lex.csv".into()]
        };
        let sys = compile_system(spec.matrix.as_bytes(), &[spec.system_csv.as_bytes()], FIXED_TIME, "")?;
        std::fs::write(dir.join("ref_system.dic"), &sys).map_err(|e| e.to_string())?;
        let mut user_len = 0;
        if let Some(u) = spec.user_csv.first() {
            // automatically computed costs need the full default plugin stack of the front end; keep explicit costs
            let u = u.replace(",-32768,", ",5000,");
            std::fs::write(dir.join("user.csv"), &u).map_err(|e| e.to_string())?;
            let ub = compile_user(&sys, &[u.as_bytes()], FIXED_TIME, "")?;
            std::fs::write(dir.join("ref_user.dic"), &ub).map_err(|e| e.to_string())?;
            user_len = ub.len();
        }
        // failure offsets: boundaries of the header, the buffer sizes of the front ends, around the end
        let l = sys.len();
        let mut ks: Vec<usize> = vec![0, 1, 271, 272, 273, l / 2, l.saturating_sub(1), l, l + 1, 8192.min(l), 16384.min(l)];
        for _ in 0..4 {
            ks.push(rng.below(l + 1));
        }
        ks.sort();
        ks.dedup();
        let mut uks: Vec<usize> = vec![];
        if user_len > 0 {
            uks = vec![0, 272, user_len / 2, user_len - 1, user_len, user_len + 1, rng.below(user_len + 1)];
            uks.sort();
            uks.dedup();
        }
        lines.push_str(&json!({"case": i, "dir": dir.display().to_string(), "system_len": l, "user_len": user_len, "offsets": ks, "user_offsets": uks, "lex_files": lex_files}).to_string());
        lines.push('\n');
    }
    std::fs::write(out.join("cases.jsonl"), lines).map_err(|e| e.to_string())?;
    Ok(n)
}
