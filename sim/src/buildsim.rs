//! BuildSim (C06): the dictionary compiler is total and never emits an invalid dictionary.
//!
//! System under simulation: the real `DictBuilder` (read_conn / read_lexicon / resolve / compile)
//! writing into a `FaultySink`. Inputs are generated valid skeletons with seeded corruption;
//! the sink fails at every byte (small outputs) or at section boundaries and sampled offsets.

use crate::dicfmt;
use crate::dictfac::{compile_system, FIXED_TIME};
use crate::harness::{catch, Engine, Stats, Violation};
use crate::rng::{fnv1a, fnv_mix, Rng};
use crate::sink::{FaultySink, SinkEvent, SinkPlan};
use crate::world::{gen_char_def, gen_world, WorldGenOpts};
use serde::{Deserialize, Serialize};
use serde_json::{json, Value};
use std::cell::RefCell;
use std::path::Path;
use std::time::{Duration, SystemTime};
use sudachi::analysis::mlist::MorphemeList;
use sudachi::analysis::stateful_tokenizer::StatefulTokenizer;
use sudachi::analysis::stateless_tokenizer::DictionaryAccess;
use sudachi::analysis::Mode;
use sudachi::config::ConfigBuilder;
use sudachi::dic::build::DictBuilder;
use sudachi::dic::dictionary::JapaneseDictionary;
use sudachi::dic::storage::{Storage, SudachiDicData};
use sudachi::dic::word_id::WordId;
use sudachi::dic::DictionaryLoader;

#[derive(Clone, Debug, Serialize, Deserialize, PartialEq)]
#[serde(untagged)]
pub enum Blob {
    Text(String),
    Hex { hex: String },
}

impl Blob {
    pub fn from_bytes(b: Vec<u8>) -> Blob {
        match String::from_utf8(b) {
            Ok(s) => Blob::Text(s),
            Err(e) => Blob::Hex { hex: e.into_bytes().iter().map(|x| format!("{:02x}", x)).collect() },
        }
    }
    pub fn bytes(&self) -> Vec<u8> {
        match self {
            Blob::Text(s) => s.as_bytes().to_vec(),
            Blob::Hex { hex } => (0..hex.len() / 2).map(|i| u8::from_str_radix(&hex[2 * i..2 * i + 2], 16).unwrap_or(0)).collect(),
        }
    }
}

#[derive(Clone, Debug, Serialize, Deserialize, PartialEq)]
#[serde(tag = "op", rename_all = "snake_case")]
pub enum BuildOp {
    ReadConn { m: usize },
    ReadLex { c: usize },
    Resolve,
    /// header description (limit: 256 bytes); any string must be stored or refused, never panic
    SetDescription { text: String },
    /// compile into a plain Vec (reference), validate, then run the fault plans if `faults`
    Compile { faults: bool },
}

#[derive(Clone, Debug, Serialize, Deserialize, PartialEq)]
#[serde(tag = "mode", rename_all = "snake_case")]
pub enum PlanMode {
    /// every hard-failure offset 0..=L in both failure modes
    Exhaustive,
    /// section boundaries and `count` seeded offsets, plus transient-only plans
    Sampled { seed: u64, count: usize },
    Explicit { plans: Vec<SinkPlan> },
}

#[derive(Clone, Debug, Serialize, Deserialize)]
pub struct BuildCase {
    /// "system" | "user"
    pub kind: String,
    /// for kind == user: the (valid) system dictionary the user dictionary is built on
    pub sys_matrix: String,
    pub sys_csv: String,
    pub matrices: Vec<Blob>,
    pub csvs: Vec<Blob>,
    pub ops: Vec<BuildOp>,
    pub plans: PlanMode,
    pub probe_texts: Vec<String>,
}

pub struct BuildSim;

// ------------------------------------------------------------------------------------------
// input corruption

const BAD_FIELDS: [&str; 38] = [
    // malformed escapes next to multi-byte characters (kept as plain text by the compiler)
    "\\uあい", "\\u1あ", "x\\u12あy", "\\u123京", "\\u{あ}", "\\u{12", "\\u", "京\\u30あ", "\\u{1F600", "\\uD83Dあ", "\\u{}都", "\\u00e9\\uあ",
    "\\u0000", "a\\u{0}", "\\u{0}b", "京\\u0000都",
    "", "-1", "-2", "32767", "32768", "-32768", "-32769", "99999", "abc", "*", "U99", "U0", "0/1/U3", "1e3", " 1", "0x10", "\\u{110000}",
    "\\ud800", "\\u{20}", "4294967295", "268435456", "A/B",
];

/// header descriptions around the 256-byte limit, counted in bytes / characters / UTF-16 units
fn gen_description(rng: &mut Rng) -> String {
    match rng.below(12) {
        0 => String::new(),
        1 => "a".repeat(255),
        2 => "a".repeat(256),
        3 => "a".repeat(257),
        4 => "東".repeat(85),                       // 255 bytes
        5 => format!("a{}", "東".repeat(85)),        // 256 bytes
        6 => "東".repeat(86),                       // 258 bytes, 86 characters
        7 => format!("{}東", "a".repeat(255)),       // 258 bytes, 256 characters
        8 => "東".repeat(256),                      // 768 bytes, 256 characters
        9 => "𠮟".repeat(64),                       // 256 bytes, 64 characters, 128 units
        10 => "𠮟".repeat(65),
        _ => "説明 description".repeat(1 + rng.below(20)),
    }
}

fn corrupt_csv(rng: &mut Rng, text: &str, n_rows_hint: usize) -> Vec<u8> {
    let mut lines: Vec<String> = text.lines().map(|s| s.to_string()).collect();
    let mut raw: Option<Vec<u8>> = None;
    let k = 1 + rng.below(3);
    for _ in 0..k {
        if lines.is_empty() {
            break;
        }
        let li = rng.below(lines.len());
        match rng.below(16) {
            0 => {
                lines.remove(li);
            }
            1 => {
                let l = lines[li].clone();
                lines.insert(li, l);
            }
            2..=7 => {
                // replace one field
                let mut f: Vec<String> = split_csv_line(&lines[li]);
                if !f.is_empty() {
                    let fi = match rng.below(5) {
                        4 => [0usize, 4, 5, 10, 11, 12][rng.below(6)].min(f.len() - 1), // string fields
                        0 => rng.below(f.len()),
                        1 => 1 + rng.below(3).min(f.len() - 1),            // ids / cost
                        2 => (13 + rng.below(6)).min(f.len() - 1),        // dic form, split type, splits, structure, synonyms
                        _ => rng.below(f.len()),
                    }
                    .min(f.len() - 1);
                    let v = match if fi == 0 && rng.chance(1, 3) { 13 } else { rng.below(13) } {
                        13 => ["\\u0000", "x\\u{0}", "\\u{0}", "東\\u0000", "a\\u0000b"][rng.below(5)].to_string(),
                        10 => "a".repeat(126 + rng.below(4)),
                        11 => "あ".repeat(126 + rng.below(4)),
                        12 => "𠮟".repeat(63 + rng.below(3)),
                        0 => "a".repeat(32767),
                        1 => "あ".repeat(11000),
                        2 => (0..128 + rng.below(3)).map(|_| "0").collect::<Vec<_>>().join("/"),
                        3 => format!("{}", n_rows_hint + rng.below(3)),      // id at / beyond the size
                        4 => format!("U{}", rng.below(12)),
                        5 => format!("{}", rng.range(-3, 14)),
                        _ => BAD_FIELDS[rng.below(BAD_FIELDS.len())].to_string(),
                    };
                    f[fi] = v;
                    lines[li] = f.iter().map(|x| quote(x)).collect::<Vec<_>>().join(",");
                }
            }
            8 => {
                // wrong arity
                let mut f = split_csv_line(&lines[li]);
                let cut = rng.below(f.len().max(1));
                f.truncate(cut);
                lines[li] = f.iter().map(|x| quote(x)).collect::<Vec<_>>().join(",");
            }
            9 => {
                lines[li].push_str(",extra,fields");
            }
            10 => {
                // truncate the file in the middle of a row
                let joined = lines.join("\n");
                let cut = rng.below(joined.len().max(1));
                let mut b = joined.into_bytes();
                b.truncate(cut);
                raw = Some(b);
                break;
            }
            11 => {
                // raw bytes: invalid UTF-8, NUL, CR, lone quote
                let mut b = lines.join("\n").into_bytes();
                b.push(b'\n');
                let at = rng.below(b.len().max(1));
                let ins: &[u8] = match rng.below(5) {
                    0 => &[0xff],
                    1 => &[0x00],
                    2 => b"\r",
                    3 => b"\"",
                    _ => &[0xe3, 0x81],
                };
                for (j, x) in ins.iter().enumerate() {
                    b.insert(at + j, *x);
                }
                raw = Some(b);
                break;
            }
            12 => {
                lines.clear();
            }
            13 => {
                lines = vec![String::new(), String::new()];
            }
            14 => {
                // make the row non-indexed or give it a negative right id
                let mut f = split_csv_line(&lines[li]);
                if f.len() > 3 {
                    if rng.chance(1, 2) {
                        f[1] = "-1".into();
                    } else {
                        f[2] = "-1".into();
                    }
                    lines[li] = f.iter().map(|x| quote(x)).collect::<Vec<_>>().join(",");
                }
            }
            _ => {
                // all rows non-indexed
                for l in lines.iter_mut() {
                    let mut f = split_csv_line(l);
                    if f.len() > 3 {
                        f[1] = "-1".into();
                        f[2] = "-1".into();
                        *l = f.iter().map(|x| quote(x)).collect::<Vec<_>>().join(",");
                    }
                }
            }
        }
    }
    match raw {
        Some(b) => b,
        None => {
            let mut s = lines.join("\n");
            if !lines.is_empty() && rng.chance(4, 5) {
                s.push('\n');
            }
            s.into_bytes()
        }
    }
}

pub fn quote(s: &str) -> String {
    if s.contains(',') || s.contains('"') || s.contains('\n') {
        format!("\"{}\"", s.replace('"', "\"\""))
    } else {
        s.to_string()
    }
}

pub fn split_csv_line(l: &str) -> Vec<String> {
    // minimal CSV splitter for our own generated lines
    let mut out = vec![];
    let mut cur = String::new();
    let mut q = false;
    let cs: Vec<char> = l.chars().collect();
    let mut i = 0;
    while i < cs.len() {
        let c = cs[i];
        if q {
            if c == '"' {
                if i + 1 < cs.len() && cs[i + 1] == '"' {
                    cur.push('"');
                    i += 1;
                } else {
                    q = false;
                }
            } else {
                cur.push(c);
            }
        } else if c == '"' {
            q = true;
        } else if c == ',' {
            out.push(std::mem::take(&mut cur));
        } else {
            cur.push(c);
        }
        i += 1;
    }
    out.push(cur);
    out
}

fn corrupt_matrix(rng: &mut Rng, text: &str) -> Vec<u8> {
    let mut lines: Vec<String> = text.lines().map(|s| s.to_string()).collect();
    let hdr = lines.iter().position(|l| !l.trim().is_empty()).unwrap_or(0);
    match rng.below(21) {
        18..=20 => {
            // valid non-square matrix (rows != columns)
            let d: Vec<i64> = lines[hdr].split_whitespace().filter_map(|x| x.parse().ok()).collect();
            let (l, r) = (d.first().cloned().unwrap_or(1), d.get(1).cloned().unwrap_or(1));
            let (nl, nr) = if rng.chance(1, 2) { (l, (r / 2).max(1)) } else { ((l / 2).max(1), r) };
            let mut out = vec![format!("{} {}", nl, nr)];
            for a in 0..nl {
                for b in 0..nr {
                    out.push(format!("{} {} {}", a, b, rng.range(-100, 3000)));
                }
            }
            lines = out;
        }
        0 => return Vec::new(),
        1 => return b"\n  \n\t\n".to_vec(),
        2 => lines.truncate(hdr + 1),
        3 => lines[hdr] = "abc def".into(),
        4 => {
            // header with one acceptable and one unacceptable size (other than the current sizes)
            let d: Vec<i64> = lines[hdr].split_whitespace().filter_map(|x| x.parse().ok()).collect();
            let (l, r) = (d.first().cloned().unwrap_or(1), d.get(1).cloned().unwrap_or(1));
            let other = |rng: &mut Rng, v: i64| [v + 1, v + 9, (v / 2).max(1), 1, 300][rng.below(5)];
            let bad = ["-1", "-32768", "x", "", "40000", "99999999999"][rng.below(6)];
            lines[hdr] = match rng.below(4) {
                0 => format!("-{}", lines[hdr].trim()),
                1 => format!("{} {}", other(rng, l), bad),
                2 => format!("{} {}", bad, other(rng, r)),
                _ => format!("{} {}", other(rng, l), other(rng, r)),
            };
        }
        5 => lines[hdr] = "3".into(),
        6 => {
            // coordinate at / beyond the dimension
            let d: Vec<i64> = lines[hdr].split_whitespace().filter_map(|x| x.parse().ok()).collect();
            let (l, r) = (d.first().cloned().unwrap_or(1), d.get(1).cloned().unwrap_or(1));
            let line = match rng.below(4) {
                0 => format!("{} 0 5", l),
                1 => format!("0 {} 5", r),
                2 => format!("{} {} 5", l + 3, r + 3),
                _ => format!("{} {} 5", l - 1, r - 1),
            };
            lines.push(line);
        }
        7 => lines.push("-1 0 5".into()),
        8 => lines.push("0 -1 5".into()),
        9 => lines.push("0 0".into()),
        10 => lines.push("0 0 1 2 3".into()),
        11 => lines.push("0 0 40000".into()),
        12 => lines.push("0 x 1".into()),
        13 => {
            // non-square header with fewer columns than the ids used by the lexicon
            let d: Vec<i64> = lines[hdr].split_whitespace().filter_map(|x| x.parse().ok()).collect();
            let (l, r) = (d.first().cloned().unwrap_or(1), d.get(1).cloned().unwrap_or(1));
            let (nl, nr) = if rng.chance(1, 2) { (l, (r / 2).max(1)) } else { ((l / 2).max(1), r) };
            let mut out = vec![format!("{} {}", nl, nr)];
            for a in 0..nl {
                for b in 0..nr {
                    out.push(format!("{} {} {}", a, b, rng.range(-100, 3000)));
                }
            }
            lines = out;
        }
        14 => {
            let mut b = lines.join("\n").into_bytes();
            let at = rng.below(b.len().max(1));
            b.insert(at, 0xff);
            return b;
        }
        15 => {
            let joined = lines.join("\n");
            let cut = rng.below(joined.len().max(1));
            let mut b = joined.into_bytes();
            b.truncate(cut);
            return b;
        }
        16 => lines[hdr] = "0 0".into(),
        _ => lines[hdr] = format!("{} 0", lines[hdr].split_whitespace().next().unwrap_or("1")),
    }
    (lines.join("\n") + "\n").into_bytes()
}

// ------------------------------------------------------------------------------------------

impl Engine for BuildSim {
    type Case = BuildCase;
    fn name(&self) -> &'static str {
        "buildsim"
    }
    fn property(&self) -> &'static str {
        "C06"
    }
    fn chunk(&self) -> u64 {
        8
    }
    fn cpu_budget_s(&self) -> u64 {
        60
    }

    fn generate(&self, seed: u64, run: u64) -> BuildCase {
        let mut wr = Rng::derive(seed, "buildsim/world", run / 4);
        let opts = WorldGenOpts { max_users: 1, max_rows: 24, full_plugins: false };
        let (spec, rec) = gen_world(&mut wr, &opts);
        let mut rng = Rng::derive(seed, "buildsim/case", run);
        let user = !spec.user_csv.is_empty() && rng.chance(1, 2);
        let n_rows = if user { rec.users[0].entries.len() } else { rec.system.entries.len() };
        let base_csv = if user { spec.user_csv[0].clone() } else { spec.system_csv.clone() };
        let mut csvs = vec![];
        let mut matrices = vec![];
        let mut style = rng.below(10); // 0..3 valid, 4..7 corrupt csv, 8..9 corrupt matrix
        if !user && rng.chance(1, 16) {
            style = 10; // non-square matrix with ids between the two dimensions
        }
        if style <= 3 {
            csvs.push(Blob::Text(base_csv.clone()));
        } else if style <= 7 {
            csvs.push(Blob::from_bytes(corrupt_csv(&mut rng, &base_csv, n_rows)));
        } else {
            csvs.push(Blob::Text(base_csv.clone()));
        }
        if rng.chance(1, 6) {
            // a second lexicon file
            let lines: Vec<&str> = base_csv.lines().collect();
            let take = 1 + rng.below(lines.len().max(1));
            let extra = lines.iter().take(take).cloned().collect::<Vec<_>>().join("\n") + "\n";
            csvs.push(if rng.chance(1, 2) { Blob::Text(extra) } else { Blob::from_bytes(corrupt_csv(&mut rng, &extra, n_rows)) });
        }
        if style == 10 {
            // rows != columns, and one entry whose id is valid for one dimension only
            let n = rec.matrix.num_left;
            let extra = 1 + rng.below(3);
            let wide_left = rng.chance(1, 2);
            let (nl, nr) = if wide_left { (n + extra, n) } else { (n, n + extra) };
            let mut out = vec![format!("{} {}", nl, nr)];
            for a in 0..nl {
                for b in 0..nr {
                    out.push(format!("{} {} {}", a, b, rng.range(-100, 3000)));
                }
            }
            matrices.push(Blob::Text(out.join("\n") + "\n"));
            let mut lines: Vec<String> = base_csv.lines().map(|x| x.to_string()).collect();
            if !lines.is_empty() {
                let li = rng.below(lines.len());
                let mut f = split_csv_line(&lines[li]);
                if f.len() > 3 {
                    let big = (n + rng.below(extra)).to_string();
                    let small = rng.below(n).to_string();
                    // both orders: id beyond the rows / beyond the columns
                    if rng.chance(1, 2) {
                        f[1] = big;
                        f[2] = small;
                    } else {
                        f[1] = small;
                        f[2] = big;
                    }
                    lines[li] = f.iter().map(|x| quote(x)).collect::<Vec<_>>().join(",");
                }
            }
            csvs[0] = Blob::Text(lines.join("\n") + "\n");
        } else if !user {
            if style >= 8 {
                matrices.push(Blob::from_bytes(corrupt_matrix(&mut rng, &spec.matrix)));
            } else {
                matrices.push(Blob::Text(spec.matrix.clone()));
            }
        }
        // many words under one key: the per-key id list holds at most 127 ids
        if style <= 3 && rng.chance(1, 12) {
            let first = base_csv.lines().next().unwrap_or("").to_string();
            let f = split_csv_line(&first);
            if f.len() >= 19 {
                let k = [126usize, 127, 128, 129, 255, 256, 257][rng.below(7)];
                let mut extra = String::new();
                for i in 0..k {
                    let mut g = f.clone();
                    g[11] = format!("ヨミ{}", i);
                    g[13] = "*".into();
                    g[14] = "A".into();
                    g[15] = "*".into();
                    g[16] = "*".into();
                    g[17] = "*".into();
                    extra.push_str(&g.iter().map(|x| quote(x)).collect::<Vec<_>>().join(","));
                    extra.push('\n');
                }
                csvs.push(Blob::Text(extra));
            }
        }
        // part-of-speech table at its limits (ids are 16 bit, the count is stored in 16 bits too)
        let many_pos = !user && style <= 3 && rng.chance(1, 150);
        if many_pos {
            let k = [32766usize, 32767, 32768, 32769, 65535, 65536, 65537][rng.below(7)];
            let already = rec.system.entries.iter().map(|e| e.pos.clone()).collect::<std::collections::HashSet<_>>().len();
            let mut extra = String::with_capacity(k * 48);
            for i in 0..k.saturating_sub(already) {
                extra.push_str(&format!("品{0},0,0,100,品{0},品{0},*,*,*,*,*,ヒン,品{0},*,A,*,*,*,*\n", i));
            }
            csvs.push(Blob::Text(extra));
        }
        // well-formed inputs as other tools write them: CRLF line ends, a byte-order mark in front
        if style <= 3 && rng.chance(1, 6) {
            let crlf = rng.chance(2, 3);
            let bom = !crlf || rng.chance(1, 3);
            let conv = |b: &Blob| -> Blob {
                match b {
                    Blob::Text(t) => {
                        let t = if crlf { t.replace('\n', "\r\n") } else { t.clone() };
                        Blob::Text(if bom { format!("\u{feff}{}", t) } else { t })
                    }
                    other => other.clone(),
                }
            };
            let which = rng.below(3);
            if which != 1 {
                for c in csvs.iter_mut() {
                    *c = conv(c);
                }
            }
            if which != 0 {
                for m in matrices.iter_mut() {
                    *m = conv(m);
                }
            }
        }
        let mut ops = vec![];
        if !user && !rng.chance(1, 40) {
            ops.push(BuildOp::ReadConn { m: 0 });
        }
        for c in 0..csvs.len() {
            ops.push(BuildOp::ReadLex { c });
        }
        if !rng.chance(1, 12) {
            ops.push(BuildOp::Resolve);
        }
        ops.push(BuildOp::Compile { faults: !many_pos });
        if rng.chance(1, 4) {
            let at = rng.below(ops.len());
            ops.insert(at, BuildOp::SetDescription { text: gen_description(&mut rng) });
        }
        // builder histories: compile again, or re-read the matrix / more rows and compile again
        if rng.chance(1, 5) {
            match rng.below(3) {
                0 => ops.push(BuildOp::Compile { faults: false }),
                1 if !user => {
                    matrices.push(Blob::from_bytes(corrupt_matrix(&mut rng, &spec.matrix)));
                    // a smaller valid matrix is the interesting re-read; so is a header of which only one size is acceptable
                    match rng.below(4) {
                        0 | 1 => matrices[1] = Blob::Text("2 2\n0 0 1\n0 1 2\n1 0 3\n1 1 4\n".into()),
                        2 => {
                            let n = rec.matrix.num_left as i64;
                            let good = [n + 1, n + 7, (n / 2).max(1), 1][rng.below(4)];
                            let bad = ["-1", "-32768", "x", "40000"][rng.below(4)];
                            let hdr = if rng.chance(1, 2) { format!("{} {}", good, bad) } else { format!("{} {}", bad, good) };
                            matrices[1] = Blob::Text(format!("{}\n0 0 1\n", hdr));
                        }
                        _ => {}
                    }
                    ops.push(BuildOp::ReadConn { m: 1 });
                    if rng.chance(1, 2) {
                        ops.push(BuildOp::Resolve);
                    }
                    ops.push(BuildOp::Compile { faults: false });
                }
                2 if rng.chance(1, 2) => {
                    // a read that FAILS after a well-formed row with inline references, then compile
                    let first = base_csv.lines().next().unwrap_or("").to_string();
                    let f = split_csv_line(&first);
                    if f.len() >= 19 {
                        let inline = format!("{},{},{},{},{},{},{},{}", f[0], f[5], f[6], f[7], f[8], f[9], f[10], f[11]);
                        let mut g = f.clone();
                        g[0] = format!("{}新", f[0]);
                        g[4] = g[0].clone();
                        g[14] = "C".into();
                        g[15] = inline.clone();
                        g[16] = "*".into();
                        g[17] = "*".into();
                        let good = g.iter().map(|x| quote(x)).collect::<Vec<_>>().join(",");
                        let bad = ["x,1", "y,a,b,c,d", "\"unterminated", "z,0,0,notanumber,z,*,*,*,*,*,*,z,z,*,A,*,*,*,*"][rng.below(4)];
                        csvs.push(Blob::Text(format!("{}\n{}\n", good, bad)));
                        ops.push(BuildOp::ReadLex { c: csvs.len() - 1 });
                        ops.push(BuildOp::Compile { faults: false });
                    }
                }
                _ => {
                    // more rows after the references were resolved, with or without resolving again
                    ops.push(BuildOp::ReadLex { c: 0 });
                    if rng.chance(1, 2) {
                        ops.push(BuildOp::Resolve);
                    }
                    ops.push(BuildOp::Compile { faults: false });
                }
            }
        }
        let plans = if rng.chance(1, 3) {
            PlanMode::Exhaustive
        } else {
            PlanMode::Sampled { seed: rng.next_u64(), count: 24 }
        };
        let mut probe_texts: Vec<String> = vec![];
        for _ in 0..6 {
            probe_texts.push(crate::world::gen_text(&mut rng, &spec.keys));
        }
        BuildCase {
            kind: if user { "user".into() } else { "system".into() },
            sys_matrix: if user { rec.matrix.render(&mut Rng::new(1), false) } else { String::new() },
            sys_csv: if user { spec.system_csv.clone() } else { String::new() },
            matrices,
            csvs,
            ops,
            plans,
            probe_texts,
        }
    }

    fn execute(&self, case: &BuildCase, stats: &mut Stats, work: &Path) -> Option<Violation> {
        execute(case, stats, work)
    }

    fn shrink(&self, case: &BuildCase, v: &Violation) -> Vec<BuildCase> {
        let mut out = vec![];
        // pin the failing plan
        if let Some(p) = v.detail.get("plan") {
            if let Ok(plan) = serde_json::from_value::<SinkPlan>(p.clone()) {
                let pinned = PlanMode::Explicit { plans: vec![plan] };
                if case.plans != pinned {
                    let mut c = case.clone();
                    c.plans = pinned;
                    out.push(c);
                }
            }
        } else if case.plans != (PlanMode::Explicit { plans: vec![] }) {
            let mut c = case.clone();
            c.plans = PlanMode::Explicit { plans: vec![] };
            out.push(c);
        }
        // drop ops
        for i in (0..case.ops.len()).rev() {
            let mut c = case.clone();
            c.ops.remove(i);
            out.push(c);
        }
        for i in 0..case.ops.len() {
            if let BuildOp::Compile { faults: true } = case.ops[i] {
                if v.detail.get("plan").is_none() {
                    let mut c = case.clone();
                    c.ops[i] = BuildOp::Compile { faults: false };
                    out.push(c);
                }
            }
        }
        // shrink inputs line-wise, then field-wise
        for (ci, b) in case.csvs.iter().enumerate() {
            if let Blob::Text(t) = b {
                let lines: Vec<&str> = t.lines().collect();
                let n = lines.len();
                let mut size = n / 2;
                // candidates are whole cases: for megabyte inputs only the coarse cuts are offered per round
                let cap = if t.len() > 200_000 { out.len() + 24 } else { usize::MAX };
                while size >= 1 && out.len() < cap {
                    let mut start = 0;
                    while start < n && out.len() < cap {
                        let end = (start + size).min(n);
                        let mut keep: Vec<&str> = vec![];
                        keep.extend_from_slice(&lines[..start]);
                        keep.extend_from_slice(&lines[end..]);
                        let mut c = case.clone();
                        c.csvs[ci] = Blob::Text(if keep.is_empty() { String::new() } else { keep.join("\n") + "\n" });
                        out.push(c);
                        start += size;
                    }
                    size /= 2;
                }
                if n <= 3 {
                    for (li, l) in lines.iter().enumerate() {
                        let f = split_csv_line(l);
                        for fi in 0..f.len() {
                            let simple = if fi == 0 || fi == 4 || fi == 11 || fi == 12 { "a" } else if fi <= 3 { "0" } else { "*" };
                            if f[fi] != simple && f[fi].len() > simple.len() {
                                let mut g = f.clone();
                                g[fi] = simple.to_string();
                                let mut nl: Vec<String> = lines.iter().map(|x| x.to_string()).collect();
                                nl[li] = g.iter().map(|x| quote(x)).collect::<Vec<_>>().join(",");
                                let mut c = case.clone();
                                c.csvs[ci] = Blob::Text(nl.join("\n") + "\n");
                                out.push(c);
                            }
                        }
                    }
                }
            }
        }
        for (mi, b) in case.matrices.iter().enumerate() {
            if let Blob::Text(t) = b {
                let lines: Vec<&str> = t.lines().collect();
                let n = lines.len();
                let mut size = n / 2;
                while size >= 1 {
                    let mut start = 1;
                    while start < n {
                        let end = (start + size).min(n);
                        let mut keep: Vec<&str> = vec![];
                        keep.extend_from_slice(&lines[..start]);
                        keep.extend_from_slice(&lines[end..]);
                        let mut c = case.clone();
                        c.matrices[mi] = Blob::Text(keep.join("\n") + "\n");
                        out.push(c);
                        start += size;
                    }
                    size /= 2;
                }
            }
        }
        if !case.probe_texts.is_empty() {
            for i in 0..case.probe_texts.len() {
                let mut c = case.clone();
                c.probe_texts.remove(i);
                out.push(c);
            }
        }
        if case.kind == "user" {
            let lines: Vec<&str> = case.sys_csv.lines().collect();
            let mut k = lines.len() / 2;
            while k >= 1 {
                let mut c = case.clone();
                c.sys_csv = lines[..lines.len() - k].join("\n") + "\n";
                out.push(c);
                k /= 2;
            }
        }
        out
    }

    fn sample(&self, case: &BuildCase) -> Value {
        let show = |b: &Blob| match b {
            Blob::Text(t) => json!({"bytes": t.len(), "head": crate::proj::trunc(t)}),
            Blob::Hex { hex } => json!({"bytes": hex.len() / 2, "hex_head": &hex[..hex.len().min(80)]}),
        };
        json!({"kind": case.kind, "ops": case.ops, "plans": match &case.plans { PlanMode::Explicit{plans} => json!({"explicit": plans.len()}), p => serde_json::to_value(p).unwrap() },
               "csvs": case.csvs.iter().map(show).collect::<Vec<_>>(), "matrices": case.matrices.iter().map(show).collect::<Vec<_>>()})
    }
}

fn viol(class: &str, site: &str, op_index: usize, detail: Value) -> Option<Violation> {
    Some(Violation { class: class.to_string(), site: site.to_string(), op_index, detail })
}

thread_local! {
    static SYS_CACHE: RefCell<Vec<(u64, std::rc::Rc<Vec<u8>>)>> = RefCell::new(Vec::new());
}

fn base_system(case: &BuildCase) -> Result<std::rc::Rc<Vec<u8>>, String> {
    let h = fnv_mix(fnv1a(case.sys_matrix.as_bytes()), fnv1a(case.sys_csv.as_bytes()));
    if let Some(b) = SYS_CACHE.with(|c| c.borrow().iter().find(|(k, _)| *k == h).map(|(_, b)| b.clone())) {
        return Ok(b);
    }
    let r = catch(|| compile_system(case.sys_matrix.as_bytes(), &[case.sys_csv.as_bytes()], FIXED_TIME, "base"));
    let bytes = match r {
        Ok(Ok(b)) => b,
        Ok(Err(e)) => return Err(e),
        Err(p) => return Err(format!("panic {} {}", p.site, p.msg)),
    };
    let rc = std::rc::Rc::new(bytes);
    SYS_CACHE.with(|c| {
        let mut c = c.borrow_mut();
        if c.len() > 4 {
            c.remove(0);
        }
        c.push((h, rc.clone()));
    });
    Ok(rc)
}

fn section_of(p: &dicfmt::ParsedDic, at: usize) -> &'static str {
    let mut name = "header";
    for (n, off) in &p.sections {
        if at >= *off {
            name = n;
        }
    }
    name
}

fn resource_dir(work: &Path) -> std::path::PathBuf {
    let dir = work.join("buildres");
    if !dir.join("char.def").exists() {
        let _ = std::fs::create_dir_all(&dir);
        let mut r = Rng::new(7);
        let _ = std::fs::write(dir.join("char.def"), gen_char_def(&mut r));
    }
    dir
}

/// Is a dictionary the compiler reported as success valid? (independent validator, then the
/// repository's loader and analyser)
fn check_valid(
    bytes: &[u8],
    system: Option<&[u8]>,
    probe: &[String],
    work: &Path,
    stats: &mut Stats,
) -> Result<dicfmt::ParsedDic, (String, String, String)> {
    let parsed = dicfmt::parse(bytes).map_err(|e| ("ok-but-invalid".to_string(), "unparseable".to_string(), e))?;
    let sys_parsed = match system {
        Some(s) => Some(dicfmt::parse(s).map_err(|e| ("harness".to_string(), "base-system-unparseable".to_string(), e))?),
        None => None,
    };
    dicfmt::validate(bytes, &parsed, sys_parsed.as_ref()).map_err(|(site, reason)| ("ok-but-invalid".to_string(), site, reason))?;
    stats.inc("valid.structural");
    // load through the repository's loader with a fallback OOV provider
    let dir = resource_dir(work);
    let cfg_json = json!({
        "characterDefinitionFile": "char.def",
        "oovProviderPlugin": [{"class":"com.worksap.nlp.sudachi.SimpleOovPlugin",
            "oovPOS": ["補助記号","一般","*","*","*","*"], "userPOS":"allow", "leftId":0, "rightId":0, "cost":30000}]
    });
    let cfg = ConfigBuilder::from_bytes(&serde_json::to_vec(&cfg_json).unwrap())
        .map_err(|e| ("harness".to_string(), "config".to_string(), e.to_string()))?
        .resource_path(&dir)
        .build();
    let (sys_b, user_b) = match system {
        Some(s) => (s.to_vec(), Some(bytes.to_vec())),
        None => (bytes.to_vec(), None),
    };
    let loaded = catch(|| {
        let mut data = SudachiDicData::new(Storage::Owned(sys_b));
        if let Some(u) = user_b {
            data.add_user(Storage::Owned(u));
        }
        JapaneseDictionary::from_cfg_storage(&cfg, data)
    });
    let dict = match loaded {
        Err(p) => return Err(("ok-but-load-fails".into(), format!("panic@{}", p.site), p.msg)),
        Ok(Err(e)) => return Err(("ok-but-load-fails".into(), "error".into(), format!("{}", e))),
        Ok(Ok(d)) => std::sync::Arc::new(d),
    };
    stats.inc("valid.loaded");
    // every entry readable
    let dic_id: u8 = if system.is_some() { 1 } else { 0 };
    let n = parsed.n as u32;
    let d2 = dict.clone();
    let r = catch(move || -> Result<(), String> {
        for i in 0..n {
            let wi = d2.lexicon().get_word_info(WordId::new(dic_id, i)).map_err(|e| format!("entry {}: {}", i, e))?;
            let _ = (wi.surface().len(), wi.dictionary_form().len(), wi.normalized_form().len(), wi.reading_form().len());
            let _ = d2.lexicon().get_word_param(WordId::new(dic_id, i));
        }
        Ok(())
    });
    match r {
        Err(p) => return Err(("ok-but-analysis-fails".into(), format!("word-info-panic@{}", p.site), p.msg)),
        Ok(Err(e)) => return Err(("ok-but-analysis-fails".into(), "word-info-error".into(), e)),
        Ok(Ok(())) => {}
    }
    // analyse probe texts (its own keys and headwords) in every mode
    let mut texts: Vec<String> = probe.to_vec();
    for w in parsed.infos.iter().take(40) {
        texts.push(w.headword.clone());
    }
    for m in [Mode::C, Mode::A, Mode::B] {
        for t in &texts {
            if t.len() > 2000 || t.contains('\u{0}') {
                continue; // very long strings / NUL are C03's business
            }
            let d3 = dict.clone();
            let tt = t.clone();
            let r = catch(move || -> Result<usize, String> {
                let mut tok = StatefulTokenizer::create(d3.clone(), false, m);
                tok.reset().push_str(&tt);
                tok.do_tokenize().map_err(|e| format!("{}", e))?;
                let mut l = MorphemeList::empty(d3.clone());
                l.collect_results(&mut tok).map_err(|e| format!("{}", e))?;
                let mut k = 0;
                for mo in l.iter() {
                    k += mo.surface().len() + mo.part_of_speech().len() + mo.normalized_form().len() + mo.dictionary_form().len() + mo.reading_form().len();
                }
                Ok(k)
            });
            match r {
                Err(p) => return Err(("ok-but-analysis-fails".into(), format!("panic@{}", p.site), format!("{} on {:?} mode {}", p.msg, crate::proj::trunc(t), m))),
                Ok(Err(e)) => return Err(("ok-but-analysis-fails".into(), "error".into(), format!("{} on {:?} mode {}", e, crate::proj::trunc(t), m))),
                Ok(Ok(_)) => {}
            }
            stats.inc("valid.analysed_texts");
        }
    }
    Ok(parsed)
}

fn gen_plans(mode: &PlanMode, parsed: &dicfmt::ParsedDic, len: usize) -> Vec<SinkPlan> {
    let errs = ["Other", "StorageFull", "BrokenPipe", "WouldBlock", "PermissionDenied"];
    let mut plans = vec![];
    let hard = |at: usize, k: usize| -> SinkPlan {
        let (mode, sticky) = match k % 4 {
            0 => ("prefix", true),
            1 => ("whole", false),
            2 => ("prefix", false),
            _ => ("whole", true),
        };
        SinkPlan {
            events: vec![SinkEvent::Hard { at, err: errs[(at + k) % errs.len()].to_string(), mode: mode.to_string(), sticky }],
            max_chunk: 0,
            fail_flush: false,
        }
    };
    match mode {
        PlanMode::Explicit { plans } => return plans.clone(),
        PlanMode::Exhaustive => {
            if len <= 6000 {
                for at in 0..=len {
                    plans.push(hard(at, 0));
                    plans.push(hard(at, 1));
                }
            } else {
                for (_, off) in &parsed.sections {
                    for d in [-1i64, 0, 1] {
                        let at = (*off as i64 + d).max(0) as usize;
                        plans.push(hard(at, 0));
                        plans.push(hard(at, 1));
                    }
                }
                let mut r = Rng::new(len as u64);
                for _ in 0..150 {
                    let at = r.below(len + 1);
                    plans.push(hard(at, r.below(4)));
                }
            }
        }
        PlanMode::Sampled { seed, count } => {
            let mut r = Rng::new(*seed);
            for (_, off) in &parsed.sections {
                for d in [-1i64, 0, 1] {
                    let at = (*off as i64 + d).max(0) as usize;
                    plans.push(hard(at, r.below(4)));
                }
            }
            for _ in 0..*count {
                let at = r.below(len + 1);
                plans.push(hard(at, r.below(4)));
            }
            // Ok(0) from the device
            for _ in 0..4 {
                plans.push(SinkPlan { events: vec![SinkEvent::Zero { at: r.below(len + 1) }], max_chunk: 0, fail_flush: false });
            }
            // transient only: short writes and EINTR storms, tiny chunks
            let mut ev = vec![];
            for _ in 0..12 {
                if r.chance(1, 2) {
                    ev.push(SinkEvent::Short { at: r.below(len + 1), n: 1 + r.below(7) });
                } else {
                    ev.push(SinkEvent::Eintr { at: r.below(len + 1), times: 1 + r.below(3) });
                }
            }
            plans.push(SinkPlan { events: ev.clone(), max_chunk: 0, fail_flush: false });
            plans.push(SinkPlan { events: vec![], max_chunk: 1 + r.below(5), fail_flush: false });
            // transient followed by a hard failure
            let mut ev2 = ev;
            ev2.push(SinkEvent::Hard { at: r.below(len + 1), err: "StorageFull".into(), mode: "prefix".into(), sticky: true });
            plans.push(SinkPlan { events: ev2, max_chunk: 3, fail_flush: false });
            // flush failure armed: compile() does not flush, so this is a reach probe
            plans.push(SinkPlan { events: vec![], max_chunk: 0, fail_flush: true });
        }
    }
    plans
}

enum AnyBuilder<'a> {
    Sys(DictBuilder<sudachi::dic::build::NoDic>),
    User(DictBuilder<&'a sudachi::dic::LoadedDictionary<'a>>),
}

macro_rules! with_builder {
    ($b:expr, $x:ident, $body:expr) => {
        match $b {
            AnyBuilder::Sys($x) => $body,
            AnyBuilder::User($x) => $body,
        }
    };
}

pub fn execute(case: &BuildCase, stats: &mut Stats, work: &Path) -> Option<Violation> {
    let user = case.kind == "user";
    let base = if user {
        match base_system(case) {
            Ok(b) => Some(b),
            Err(e) => {
                stats.inc("world_build_failed");
                if !crate::harness::minimising() && stats.counters["world_build_failed"] <= 1 {
                    eprintln!("buildsim: base system failed to build: {}", e);
                }
                return None;
            }
        }
    } else {
        None
    };
    let loaded_holder;
    let mut builder = if let Some(b) = &base {
        let l = match DictionaryLoader::read_system_dictionary(b.as_slice()).ok().and_then(|d| d.to_loaded()) {
            Some(l) => l,
            None => {
                stats.inc("world_build_failed");
                return None;
            }
        };
        loaded_holder = l;
        let mut bl = DictBuilder::new_user(&loaded_holder);
        bl.set_compile_time(SystemTime::UNIX_EPOCH + Duration::from_secs(FIXED_TIME));
        AnyBuilder::User(bl)
    } else {
        let mut bl = DictBuilder::new_system();
        bl.set_compile_time(SystemTime::UNIX_EPOCH + Duration::from_secs(FIXED_TIME));
        AnyBuilder::Sys(bl)
    };
    let mats: Vec<Vec<u8>> = case.matrices.iter().map(|b| b.bytes()).collect();
    let csvs: Vec<Vec<u8>> = case.csvs.iter().map(|b| b.bytes()).collect();
    let mut digest = fnv1a(b"buildsim");
    let mut conn_read = false;
    let mut conn_offered = false;
    let mut nontrivial = false;

    for (oi, op) in case.ops.iter().enumerate() {
        stats.inc("ops");
        match op {
            BuildOp::ReadConn { m } => {
                if user || mats.is_empty() {
                    continue;
                }
                let data = &mats[*m % mats.len()];
                conn_offered = true;
                let r = catch(|| with_builder!(&mut builder, b, b.read_conn(data.as_slice())));
                match r {
                    Err(p) => return viol("panic", &p.site, oi, json!({"op":"read_conn","message":p.msg})),
                    Ok(Err(_)) => {
                        stats.inc("read_conn.err");
                        digest = fnv_mix(digest, 1);
                    }
                    Ok(Ok(())) => {
                        stats.inc("read_conn.ok");
                        conn_read = true;
                    }
                }
            }
            BuildOp::ReadLex { c } => {
                if csvs.is_empty() {
                    continue;
                }
                let data = &csvs[*c % csvs.len()];
                let r = catch(|| with_builder!(&mut builder, b, b.read_lexicon(data.as_slice())));
                match r {
                    Err(p) => return viol("panic", &p.site, oi, json!({"op":"read_lexicon","message":p.msg})),
                    Ok(Err(_)) => {
                        stats.inc("read_lexicon.err");
                        digest = fnv_mix(digest, 2);
                    }
                    Ok(Ok(n)) => {
                        stats.inc("read_lexicon.ok");
                        digest = fnv_mix(digest, 100 + n as u64);
                    }
                }
            }
            BuildOp::SetDescription { text } => {
                stats.inc("set_description");
                if text.len() > 256 {
                    stats.inc("set_description.over_limit");
                }
                digest = fnv_mix(digest, 7 + text.len() as u64);
                let r = catch(|| with_builder!(&mut builder, b, b.set_description(text.clone())));
                if let Err(p) = r {
                    return viol("panic", &p.site, oi, json!({"op":"set_description","message":p.msg}));
                }
            }
            BuildOp::Resolve => {
                let r = catch(|| with_builder!(&mut builder, b, b.resolve()));
                match r {
                    Err(p) => return viol("panic", &p.site, oi, json!({"op":"resolve","message":p.msg})),
                    Ok(Err(_)) => {
                        stats.inc("resolve.err");
                        digest = fnv_mix(digest, 3);
                    }
                    Ok(Ok(_)) => stats.inc("resolve.ok"),
                }
            }
            BuildOp::Compile { faults } => {
                let _ = (conn_read, conn_offered);
                let mut reference: Vec<u8> = Vec::new();
                let r = catch(|| with_builder!(&mut builder, b, b.compile(&mut reference)));
                let ok = match r {
                    Err(p) => return viol("panic", &p.site, oi, json!({"op":"compile","message":p.msg})),
                    Ok(Err(_)) => {
                        stats.inc("compile.err");
                        digest = fnv_mix(digest, 4);
                        false
                    }
                    Ok(Ok(())) => {
                        stats.inc("compile.ok");
                        true
                    }
                };
                if !ok {
                    continue;
                }
                nontrivial = true;
                digest = fnv_mix(digest, fnv1a(&reference));
                let parsed = match check_valid(&reference, base.as_ref().map(|b| b.as_slice()), &case.probe_texts, work, stats) {
                    Ok(p) => p,
                    Err((class, site, reason)) => {
                        if class == "harness" {
                            stats.inc("world_build_failed");
                            return None;
                        }
                        return viol(&class, &site, oi, json!({"reason": reason, "bytes": reference.len()}));
                    }
                };
                if !*faults {
                    continue;
                }
                let len = reference.len();
                let plans = gen_plans(&case.plans, &parsed, len);
                if let PlanMode::Exhaustive = case.plans {
                    if len <= 6000 {
                        stats.inc("exhaustive_inputs");
                    }
                }
                for plan in plans {
                    stats.inc("fault_plans");
                    let mut sink = FaultySink::new(plan.clone());
                    let r = catch(|| with_builder!(&mut builder, b, b.compile(&mut sink)));
                    if sink.hard_fired > 0 {
                        stats.inc("fault.hard_fired");
                        if let Some(at) = sink.hard_at {
                            stats.inc(&format!("fault.section.{}", section_of(&parsed, at)));
                        }
                    } else {
                        stats.inc("fault.hard_not_reached");
                    }
                    if sink.transient_fired > 0 {
                        stats.add("fault.transient_fired", sink.transient_fired as u64);
                    }
                    if sink.flush_calls > 0 {
                        stats.inc("reach.compile_called_flush");
                    }
                    match r {
                        Err(p) => return viol("panic", &p.site, oi, json!({"op":"compile-with-faults","message":p.msg,"plan":plan})),
                        Ok(Ok(())) => {
                            if sink.hard_fired > 0 {
                                let sec = sink.hard_at.map(|a| section_of(&parsed, a)).unwrap_or("flush");
                                return viol(
                                    "sink-failure-reported-as-success",
                                    sec,
                                    oi,
                                    json!({"plan": plan, "written": sink.data.len(), "expected": len}),
                                );
                            }
                            if sink.data != reference {
                                // allowed only if still a valid dictionary
                                match check_valid(&sink.data, base.as_ref().map(|b| b.as_slice()), &[], work, stats) {
                                    Ok(_) => stats.inc("ok_differs_but_valid"),
                                    Err((class, site, reason)) => {
                                        return viol(
                                            &class,
                                            &format!("under-transient-faults:{}", site),
                                            oi,
                                            json!({"plan": plan, "reason": reason, "written": sink.data.len(), "expected": len}),
                                        );
                                    }
                                }
                            } else {
                                stats.inc("transient_absorbed");
                            }
                        }
                        Ok(Err(_)) => {
                            if sink.hard_fired == 0 {
                                stats.inc("err_without_hard_fault");
                            } else {
                                stats.inc("hard_fault_reported");
                            }
                        }
                    }
                }
            }
        }
    }
    stats.run_digest = digest;
    if nontrivial {
        let h = fnv1a(serde_json::to_string(&(&case.matrices, &case.csvs, &case.ops, &case.kind)).unwrap().as_bytes());
        stats.sigs.insert(h);
    }
    // corrupted inputs that were rejected or accepted: second signature = (kind, outcome digest)
    stats.sigs2.insert(digest);
    let _ = gen_world; // (generator shared with the other engines)
    let _ = WorldGenOpts::default;
    None
}
