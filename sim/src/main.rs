mod buildgen;
mod buildsim;
mod cligen;
mod clock;
mod concsim;
mod dicfmt;
mod sink;
mod dictfac;
mod editsim;
mod harness;
mod mirigen;
mod proj;
mod pygen;
mod rng;
mod roundtrip;
mod simdict;
mod stacksim;
mod toksim;
mod world;
mod worldcache;

use harness::{install_panic_hook, parse_opts, run_batch};

fn main() {
    let args: Vec<String> = std::env::args().collect();
    if args.len() < 2 {
        eprintln!("usage: vsim <engine> [options]");
        std::process::exit(2);
    }
    if args[1] != "dbgtok" {
        // the subject's debug mode prints to descriptor 1; the harness keeps the original for itself
        harness::redirect_stdout();
    }
    install_panic_hook();
    let opts = parse_opts(&args[2..]);
    let exit = match args[1].as_str() {
        "toksim" => run_batch(&toksim::TokSim, &opts).exit,
        "buildsim" => run_batch(&buildsim::BuildSim, &opts).exit,
        "concsim" => run_batch(&concsim::ConcSim, &opts).exit,
        "roundtrip" => run_batch(&roundtrip::RoundTripSim, &opts).exit,
        "editsim" => run_batch(&editsim::EditSim, &opts).exit,
        "offsetsim" => run_batch(&editsim::OffsetSim, &opts).exit,
        "dbgtok" => {
            // vsim dbgtok --replay file --text T --mode A
            let doc: serde_json::Value = serde_json::from_slice(&std::fs::read(opts.replay.as_ref().unwrap()).unwrap()).unwrap();
            let w: world::WorldSpec = serde_json::from_value(doc["case"]["world"].clone()).unwrap();
            let dir = std::path::PathBuf::from("/verif/work/dbgtok");
            let b = dictfac::build_world(&w, &dir).unwrap();
            let text = opts.extra.get("text").cloned().unwrap_or_default();
            let mode = toksim::mode_of(opts.extra.get("mode").map(|s| s.as_str()).unwrap_or("C"));
            let mut tok = sudachi::analysis::stateful_tokenizer::StatefulTokenizer::create(b.dict.clone(), true, mode);
            tok.reset().push_str(&text);
            crate::outln!("{:?}", tok.do_tokenize());
            let mut l = sudachi::analysis::mlist::MorphemeList::empty(b.dict.clone());
            l.collect_results(&mut tok).unwrap();
            for m in l.iter() {
                crate::outln!("{} {} wid={:?}", m.begin(), m.end(), m.word_id());
                crate::outln!("  {:?}", m.surface());
            }
            0
        }
        "pygen" => {
            let out = opts.extra.get("out").cloned().unwrap_or_else(|| "/verif/work/py".to_string());
            let only = opts.extra.get("only").and_then(|s| s.parse::<usize>().ok());
            let runs = only.map(|o| o + 1).unwrap_or(opts.runs as usize);
            match pygen::generate(opts.seed, runs, std::path::Path::new(&out), only) {
                Ok(n) => {
                    crate::outln!("pygen: {} scripts, {} ops -> {}", opts.runs, n, out);
                    0
                }
                Err(e) => {
                    eprintln!("HARNESS-ERROR: pygen: {}", e);
                    2
                }
            }
        }
        "cligen" => {
            let out = opts.extra.get("out").cloned().unwrap_or_else(|| "/verif/work/cli".to_string());
            let only = opts.extra.get("only").and_then(|s| s.parse::<usize>().ok());
            let runs = only.map(|o| o + 1).unwrap_or(opts.runs as usize);
            match cligen::generate(opts.seed, runs, std::path::Path::new(&out), only) {
                Ok(n) => {
                    crate::outln!("cligen: {} cases -> {}", n, out);
                    0
                }
                Err(e) => {
                    eprintln!("HARNESS-ERROR: cligen: {}", e);
                    2
                }
            }
        }
        "buildgen" => {
            let out = opts.extra.get("out").cloned().unwrap_or_else(|| "/verif/work/bsink".to_string());
            match buildgen::generate(opts.seed, opts.runs as usize, std::path::Path::new(&out)) {
                Ok(n) => {
                    crate::outln!("buildgen: {} worlds -> {}", n, out);
                    0
                }
                Err(e) => {
                    eprintln!("HARNESS-ERROR: buildgen: {}", e);
                    2
                }
            }
        }
        "pythreadgen" => {
            let out = opts.extra.get("out").cloned().unwrap_or_else(|| "/verif/work/pyt".to_string());
            let seam = opts.extra.get("seam").cloned().unwrap_or_else(|| "/verif/target/seam/debug".to_string());
            let only = opts.extra.get("only").and_then(|s| s.parse::<usize>().ok());
            let runs = only.map(|o| o + 1).unwrap_or(opts.runs as usize);
            match pygen::generate_threads(opts.seed, runs, std::path::Path::new(&out), &seam, only) {
                Ok(n) => {
                    crate::outln!("pythreadgen: {} cases -> {}", n, out);
                    0
                }
                Err(e) => {
                    eprintln!("HARNESS-ERROR: pythreadgen: {}", e);
                    2
                }
            }
        }
        "stackprobe" => {
            // vsim stackprobe --seed S --case K : one scenario per process (a stack overflow kills the process)
            let case: u64 = opts.extra.get("case").and_then(|s| s.parse().ok()).unwrap_or(0);
            let (rc, v) = stacksim::run(opts.seed, case, &opts.work);
            crate::outln!("{}", v);
            let _ = std::fs::remove_dir_all(&opts.work);
            rc
        }
        "mirigen" => {
            let out = opts.extra.get("out").cloned().unwrap_or_else(|| "/verif/work/miri".to_string());
            match mirigen::generate(opts.seed, std::path::Path::new(&out), opts.extra.contains_key("big"), opts.extra.contains_key("many")) {
                Ok(()) => 0,
                Err(e) => {
                    eprintln!("HARNESS-ERROR: mirigen: {}", e);
                    2
                }
            }
        }
        "dumpcase" => {
            // vsim dumpcase --engine buildsim --run N  -> prints the generated case
            let run: u64 = opts.extra.get("run").and_then(|s| s.parse().ok()).unwrap_or(0);
            use harness::Engine;
            let v = match opts.extra.get("engine").map(|s| s.as_str()).unwrap_or("") {
                "buildsim" => serde_json::to_value(buildsim::BuildSim.generate(opts.seed, run)).unwrap(),
                "toksim" => serde_json::to_value(toksim::TokSim.generate(opts.seed, run)).unwrap(),
                _ => serde_json::Value::Null,
            };
            crate::outln!("{}", serde_json::to_string_pretty(&serde_json::json!({"case": v, "run": run})).unwrap());
            0
        }
        "worldcheck" => {
            let mut bad = 0;
            for i in 0..opts.runs {
                let mut r = rng::Rng::derive(opts.seed, "toksim/world", i);
                let (w, _) = world::gen_world(&mut r, &world::WorldGenOpts::default());
                let dir = std::path::PathBuf::from(format!("/verif/work/wc{}", i));
                match harness::catch(|| dictfac::build_world(&w, &dir)) {
                    Ok(Ok(_)) => {}
                    Ok(Err(e)) => {
                        bad += 1;
                        crate::outln!("world {} failed: {}", i, e);
                        if opts.extra.contains_key("dump") {
                            crate::outln!("{}", w.system_csv);
                            for u in &w.user_csv { crate::outln!("--user--\n{}", u); }
                        }
                    }
                    Err(p) => {
                        bad += 1;
                        crate::outln!("world {} panicked: {} {}", i, p.site, p.msg);
                    }
                }
                let _ = std::fs::remove_dir_all(&dir);
            }
            crate::outln!("worlds={} bad={}", opts.runs, bad);
            if bad > 0 { 2 } else { 0 }
        }
        x => {
            eprintln!("HARNESS-ERROR: unknown engine {}", x);
            2
        }
    };
    std::process::exit(exit);
}
