//! Shared harness: seeded batch runner (index-owned seeds, worker-count independent results),
//! panic capture, delta-debugging minimiser, replay files, known-findings matcher, summaries.

/// The harness reports on the *original* standard output; descriptor 1 itself is pointed at /dev/null at
/// start-up because the subject's debug mode prints lattice dumps with `println!`.
static OUT_FD: std::sync::atomic::AtomicI32 = std::sync::atomic::AtomicI32::new(1);

pub fn redirect_stdout() {
    unsafe {
        let saved = libc::dup(1);
        let null = libc::open(b"/dev/null\0".as_ptr() as *const libc::c_char, libc::O_WRONLY);
        if saved >= 0 && null >= 0 {
            libc::dup2(null, 1);
            libc::close(null);
            OUT_FD.store(saved, std::sync::atomic::Ordering::SeqCst);
        }
    }
}

pub fn out_write(s: &str) {
    let fd = OUT_FD.load(std::sync::atomic::Ordering::SeqCst);
    let mut b = s.as_bytes();
    while !b.is_empty() {
        let n = unsafe { libc::write(fd, b.as_ptr() as *const libc::c_void, b.len()) };
        if n <= 0 {
            break;
        }
        b = &b[n as usize..];
    }
}

#[macro_export]
macro_rules! outln {
    () => { $crate::harness::out_write("\n") };
    ($($a:tt)*) => { $crate::harness::out_write(&(format!($($a)*) + "\n")) };
}

use crate::clock;
use serde::de::DeserializeOwned;
use serde::{Deserialize, Serialize};
use serde_json::{json, Value};
use std::cell::RefCell;
use std::collections::{BTreeMap, BTreeSet};
use std::path::{Path, PathBuf};
use std::sync::atomic::{AtomicU64, Ordering};
use std::sync::Mutex;

#[derive(Clone, Debug, Serialize, Deserialize)]
pub struct Violation {
    pub class: String,
    /// call site (panics: file:line inside /repo) or a field/stage name; part of the signature
    pub site: String,
    pub op_index: usize,
    pub detail: Value,
}

impl Violation {
    pub fn signature(&self) -> String {
        format!("{}@{}", self.class, self.site)
    }
}

#[derive(Default, Clone, Debug)]
pub struct Stats {
    pub counters: BTreeMap<String, u64>,
    /// signatures of distinct non-trivial cases
    pub sigs: BTreeSet<u64>,
    /// second signature family (schedules / states), optional
    pub sigs2: BTreeSet<u64>,
    pub run_digest: u64,
    pub unclaimed: BTreeMap<String, u64>,
}

impl Stats {
    pub fn inc(&mut self, k: &str) {
        *self.counters.entry(k.to_string()).or_insert(0) += 1;
    }
    pub fn add(&mut self, k: &str, n: u64) {
        *self.counters.entry(k.to_string()).or_insert(0) += n;
    }
    pub fn merge(&mut self, o: &Stats) {
        for (k, v) in &o.counters {
            *self.counters.entry(k.clone()).or_insert(0) += v;
        }
        for (k, v) in &o.unclaimed {
            *self.unclaimed.entry(k.clone()).or_insert(0) += v;
        }
        self.sigs.extend(o.sigs.iter().cloned());
        self.sigs2.extend(o.sigs2.iter().cloned());
    }
}

pub trait Engine: Sync {
    type Case: Serialize + DeserializeOwned + Clone + Send;
    fn name(&self) -> &'static str;
    fn property(&self) -> &'static str;
    /// consecutive runs that share a world (workers take whole chunks)
    fn chunk(&self) -> u64 {
        32
    }
    fn generate(&self, seed: u64, run: u64) -> Self::Case;
    fn execute(&self, case: &Self::Case, stats: &mut Stats, work: &Path) -> Option<Violation>;
    /// candidate simplifications, most aggressive first; `v` is the violation the current case produces
    fn shrink(&self, case: &Self::Case, v: &Violation) -> Vec<Self::Case>;
    /// CPU seconds one run may consume before it is reported as non-terminating
    fn cpu_budget_s(&self) -> u64 {
        20
    }
    /// a compact, human-readable rendering for evidence samples
    fn sample(&self, case: &Self::Case) -> Value {
        serde_json::to_value(case).unwrap_or(Value::Null)
    }
}

// ------------------------------------------------------------------------------------------
// panic capture

thread_local! {
    static LAST_PANIC: RefCell<Option<(String, String)>> = RefCell::new(None);
    static QUIET: RefCell<bool> = RefCell::new(false);
}

pub fn install_panic_hook() {
    let default = std::panic::take_hook();
    std::panic::set_hook(Box::new(move |info| {
        let loc = info
            .location()
            .map(|l| format!("{}:{}", l.file(), l.line()))
            .unwrap_or_else(|| "?".into());
        let msg = if let Some(s) = info.payload().downcast_ref::<&str>() {
            s.to_string()
        } else if let Some(s) = info.payload().downcast_ref::<String>() {
            s.clone()
        } else {
            "<non-string panic>".to_string()
        };
        let quiet = QUIET.with(|q| *q.borrow());
        LAST_PANIC.with(|p| *p.borrow_mut() = Some((normalise_site(&loc), msg)));
        if !quiet {
            default(info);
        }
    }));
}

/// "/repo/sudachi/src/analysis/mlist.rs:211" -> "sudachi/src/analysis/mlist.rs:211";
/// registry crates keep "<crate>-<ver>/src/..."
pub fn normalise_site(loc: &str) -> String {
    if let Some(i) = loc.find("/repo/") {
        return loc[i + 6..].to_string();
    }
    if let Some(i) = loc.find("/registry/src/") {
        let rest = &loc[i + 14..];
        if let Some(j) = rest.find('/') {
            return rest[j + 1..].to_string();
        }
    }
    loc.to_string()
}

pub struct PanicInfo {
    pub site: String,
    pub msg: String,
}

/// Run `f`, trapping panics (site = file:line of the panic location).
pub fn catch<T>(f: impl FnOnce() -> T) -> Result<T, PanicInfo> {
    QUIET.with(|q| *q.borrow_mut() = true);
    LAST_PANIC.with(|p| *p.borrow_mut() = None);
    let r = std::panic::catch_unwind(std::panic::AssertUnwindSafe(f));
    QUIET.with(|q| *q.borrow_mut() = false);
    match r {
        Ok(v) => Ok(v),
        Err(_) => {
            let (site, msg) = LAST_PANIC
                .with(|p| p.borrow_mut().take())
                .unwrap_or(("?".into(), "?".into()));
            Err(PanicInfo { site, msg })
        }
    }
}

// ------------------------------------------------------------------------------------------
// watchdog: every run has a CPU-time budget (measured on the executing thread, so machine load
// does not matter); a run that exhausts it is reported as `no-termination` with its case.

pub struct Slot {
    busy: AtomicU64,
    cpu_start_ns: AtomicU64,
    tid: AtomicU64,
    phase: std::sync::atomic::AtomicU8,
    case: Mutex<Option<String>>,
}

impl Slot {
    fn new() -> Slot {
        Slot {
            busy: AtomicU64::new(0),
            cpu_start_ns: AtomicU64::new(0),
            tid: AtomicU64::new(0),
            phase: std::sync::atomic::AtomicU8::new(0),
            case: Mutex::new(None),
        }
    }
}

thread_local! {
    static CUR_PHASE: RefCell<Option<&'static std::sync::atomic::AtomicU8>> = RefCell::new(None);
}

/// engines mark which side is executing: 0 = system under simulation, 1 = reference model
pub fn set_phase(p: u8) {
    CUR_PHASE.with(|c| {
        if let Some(a) = *c.borrow() {
            a.store(p, Ordering::SeqCst);
        }
    });
}

/// scheduler state of a thread of this process ('R' running or runnable, 'S' / 'D' sleeping): a thread that is merely
/// starved by other load is runnable, a deadlocked one sleeps
pub fn thread_state(ktid: i64) -> Option<char> {
    let s = std::fs::read_to_string(format!("/proc/self/task/{}/stat", ktid)).ok()?;
    let p = s.rfind(')')?;
    s[p + 1..].trim_start().chars().next()
}

pub fn thread_cpu_ns(tid: libc::pthread_t) -> Option<u64> {
    let mut cid: libc::clockid_t = 0;
    if unsafe { libc::pthread_getcpuclockid(tid, &mut cid) } != 0 {
        return None;
    }
    Some(clock::raw_ns(cid))
}

fn guarded<E: Engine>(e: &E, slot: &'static Slot, run: u64, case: &E::Case, stats: &mut Stats, work: &Path) -> Option<Violation> {
    *slot.case.lock().unwrap() = Some(serde_json::to_string(case).unwrap());
    let me = unsafe { libc::pthread_self() };
    slot.tid.store(me as u64, Ordering::SeqCst);
    slot.cpu_start_ns.store(thread_cpu_ns(me).unwrap_or(0), Ordering::SeqCst);
    slot.phase.store(0, Ordering::SeqCst);
    CUR_PHASE.with(|c| *c.borrow_mut() = Some(&slot.phase));
    CUR_SLOT.with(|c| c.set(Some(slot)));
    slot.busy.store(run + 1, Ordering::SeqCst);
    let r = e.execute(case, stats, work);
    slot.busy.store(0, Ordering::SeqCst);
    r
}

thread_local! {
    static CUR_SLOT: std::cell::Cell<Option<&'static Slot>> = std::cell::Cell::new(None);
}

struct BatchInfo {
    prop: &'static str,
    name: &'static str,
    seed: u64,
    replay_dir: PathBuf,
    known: Vec<KnownFinding>,
}
static BATCH: std::sync::OnceLock<BatchInfo> = std::sync::OnceLock::new();

/// For engines that run the subject on threads of their own: a subject thread that can no longer be stopped
/// (spinning or blocked for good) poisons the process, so the batch ends here with the violation, exactly
/// like a run that exhausts its CPU budget (the case is not minimised).
pub fn abort_batch(v: Violation) -> ! {
    let (prop, name, seed, dir, known): (&str, &str, u64, PathBuf, &[KnownFinding]) = match BATCH.get() {
        Some(b) => (b.prop, b.name, b.seed, b.replay_dir.clone(), &b.known),
        None => ("?", "?", 0, PathBuf::from("/verif/replays"), &[]),
    };
    let (run, case) = CUR_SLOT.with(|c| match c.get() {
        Some(s) => (
            s.busy.load(Ordering::SeqCst).saturating_sub(1),
            s.case.lock().unwrap().as_ref().and_then(|c| serde_json::from_str::<Value>(c).ok()).unwrap_or(Value::Null),
        ),
        None => (0, Value::Null),
    });
    let _ = std::fs::create_dir_all(&dir);
    let path = dir.join(format!("{}-{}-{}-{}.json", prop, name, seed, run));
    let doc = json!({"format":1,"property":prop,"engine":name,"seed":seed,"run":run,"repo_rev":repo_rev(),"case":case,"violation":v});
    let _ = std::fs::write(&path, serde_json::to_vec_pretty(&doc).unwrap());
    if let Some(k) = match_known(known, prop, name, &v) {
        crate::outln!("KNOWN-FINDING: property={} engine={} {} — {} (batch aborted at run {})", prop, name, v.signature(), k.what, run);
        std::process::exit(0);
    }
    crate::outln!("violation: property={} engine={} class={} site={} run={} (batch aborted: a subject thread cannot be stopped) detail={}", prop, name, v.class, v.site, run, v.detail);
    crate::outln!("VIOLATION property={} replay={}", prop, path.display());
    std::process::exit(1);
}

fn spawn_watchdog<E: Engine>(e: &E, o: &Opts, slots: &'static [Slot], known: Vec<KnownFinding>) {
    let budget_ns = e.cpu_budget_s() * 1_000_000_000;
    let (prop, name) = (e.property(), e.name());
    let _ = BATCH.set(BatchInfo { prop: e.property(), name: e.name(), seed: o.seed, replay_dir: o.replay_dir.clone(), known: known.clone() });
    let o = o.clone();
    std::thread::spawn(move || loop {
        std::thread::sleep(std::time::Duration::from_millis(250));
        for s in slots.iter() {
            let b = s.busy.load(Ordering::SeqCst);
            if b == 0 {
                continue;
            }
            let tid = s.tid.load(Ordering::SeqCst) as libc::pthread_t;
            let now = match thread_cpu_ns(tid) {
                Some(n) => n,
                None => continue,
            };
            let start = s.cpu_start_ns.load(Ordering::SeqCst);
            if s.busy.load(Ordering::SeqCst) != b || now < start || now - start < budget_ns {
                continue;
            }
            let run = b - 1;
            let phase = s.phase.load(Ordering::SeqCst);
            let case: Value = s
                .case
                .lock()
                .unwrap()
                .as_ref()
                .and_then(|c| serde_json::from_str(c).ok())
                .unwrap_or(Value::Null);
            let v = Violation {
                class: "no-termination".into(),
                site: if phase == 0 { "subject".into() } else { "reference".into() },
                op_index: 0,
                detail: json!({"cpu_budget_s": budget_ns / 1_000_000_000, "note": "run exceeded its CPU budget; case is not minimised"}),
            };
            let _ = std::fs::create_dir_all(&o.replay_dir);
            let path = o.replay_dir.join(format!("{}-{}-{}-{}.json", prop, name, o.seed, run));
            let doc = json!({"format":1,"property":prop,"engine":name,"seed":o.seed,"run":run,"repo_rev":repo_rev(),"case":case,"violation":v});
            let _ = std::fs::write(&path, serde_json::to_vec_pretty(&doc).unwrap());
            if phase != 0 {
                crate::outln!("HARNESS-ERROR: reference model did not terminate in run {} (case in {})", run, path.display());
                std::process::exit(2);
            }
            if let Some(k) = match_known(&known, prop, name, &v) {
                crate::outln!("KNOWN-FINDING: property={} engine={} {} — {} (batch aborted at run {})", prop, name, v.signature(), k.what, run);
                std::process::exit(0);
            }
            crate::outln!("violation: property={} engine={} class=no-termination site=subject run={} (CPU budget {} s exhausted)", prop, name, run, budget_ns / 1_000_000_000);
            crate::outln!("VIOLATION property={} replay={}", prop, path.display());
            std::process::exit(1);
        }
    });
}

fn make_slots(n: usize) -> &'static [Slot] {
    let v: Vec<Slot> = (0..n).map(|_| Slot::new()).collect();
    Box::leak(v.into_boxed_slice())
}

// ------------------------------------------------------------------------------------------
// known findings

#[derive(Clone, Debug, Deserialize)]
pub struct KnownFinding {
    pub status: String, // "known" | "fixed"
    pub property: String,
    #[serde(default)]
    pub engine: String,
    pub class: String,
    pub site: String,
    #[serde(default)]
    pub what: String,
    #[serde(default)]
    pub commit: String,
}

pub fn load_known(path: &Path) -> Vec<KnownFinding> {
    let mut v = vec![];
    if let Ok(s) = std::fs::read_to_string(path) {
        for line in s.lines() {
            let line = line.trim();
            if line.is_empty() || line.starts_with('#') {
                continue;
            }
            match serde_json::from_str::<KnownFinding>(line) {
                Ok(k) => v.push(k),
                Err(e) => {
                    eprintln!("HARNESS-ERROR: bad known_findings line: {} ({})", line, e);
                    std::process::exit(2);
                }
            }
        }
    }
    v
}

pub fn match_known<'a>(known: &'a [KnownFinding], prop: &str, engine: &str, v: &Violation) -> Option<&'a KnownFinding> {
    known.iter().find(|k| {
        k.status == "known"
            && k.property == prop
            && (k.engine.is_empty() || k.engine == engine)
            && k.class == v.class
            && k.site == v.site
    })
}

// ------------------------------------------------------------------------------------------
// options / summary

#[derive(Clone, Debug)]
pub struct Opts {
    pub seed: u64,
    pub runs: u64,
    pub threads: usize,
    pub tier: String,
    pub summary: Option<PathBuf>,
    pub log: Option<PathBuf>,
    pub replay_dir: PathBuf,
    pub replay: Option<PathBuf>,
    pub known: PathBuf,
    pub work: PathBuf,
    pub extra: BTreeMap<String, String>,
}

pub fn parse_opts(args: &[String]) -> Opts {
    let mut o = Opts {
        seed: std::env::var("VERIF_SEED")
            .ok()
            .and_then(|s| s.trim().parse::<u64>().ok())
            .unwrap_or(20260928),
        runs: 1000,
        threads: 16,
        tier: std::env::var("VERIF_TIER").unwrap_or_else(|_| "quick".into()),
        summary: None,
        log: None,
        replay_dir: PathBuf::from("/verif/replays"),
        replay: None,
        known: PathBuf::from("/verif/known_findings.jsonl"),
        work: PathBuf::from(format!("/verif/work/p{}", std::process::id())),
        extra: BTreeMap::new(),
    };
    let mut i = 0;
    while i < args.len() {
        let a = &args[i];
        let mut val = || {
            i += 1;
            args.get(i).cloned().unwrap_or_else(|| {
                eprintln!("HARNESS-ERROR: missing value for {}", a);
                std::process::exit(2)
            })
        };
        match a.as_str() {
            "--seed" => o.seed = val().parse().expect("seed"),
            "--runs" => o.runs = val().parse().expect("runs"),
            "--threads" => o.threads = val().parse().expect("threads"),
            "--tier" => o.tier = val(),
            "--summary" => o.summary = Some(PathBuf::from(val())),
            "--log" => o.log = Some(PathBuf::from(val())),
            "--replay-dir" => o.replay_dir = PathBuf::from(val()),
            "--replay" => o.replay = Some(PathBuf::from(val())),
            "--known" => o.known = PathBuf::from(val()),
            "--work" => o.work = PathBuf::from(val()),
            x if x.starts_with("--") => {
                let k = x[2..].to_string();
                let v = val();
                o.extra.insert(k, v);
            }
            _ => {
                eprintln!("HARNESS-ERROR: unknown argument {}", a);
                std::process::exit(2);
            }
        }
        i += 1;
    }
    o
}

pub struct Outcome {
    pub exit: i32,
}

fn repo_rev() -> String {
    let out = std::process::Command::new("git")
        .args(["-C", "/repo", "rev-parse", "HEAD"])
        .output();
    let mut s = match out {
        Ok(o) => String::from_utf8_lossy(&o.stdout).trim().to_string(),
        Err(_) => "unknown".into(),
    };
    if let Ok(o) = std::process::Command::new("git")
        .args(["-C", "/repo", "status", "--porcelain", "--untracked-files=no"])
        .output()
    {
        if !o.stdout.is_empty() {
            s.push_str("+dirty");
        }
    }
    s
}

fn write_replay<E: Engine>(e: &E, o: &Opts, run: u64, case: &E::Case, v: &Violation, minimised_from: usize) -> PathBuf {
    let _ = std::fs::create_dir_all(&o.replay_dir);
    let path = o
        .replay_dir
        .join(format!("{}-{}-{}-{}.json", e.property(), e.name(), o.seed, run));
    let doc = json!({
        "format": 1,
        "property": e.property(),
        "engine": e.name(),
        "seed": o.seed,
        "run": run,
        "repo_rev": repo_rev(),
        "case": case,
        "violation": v,
        "minimised_from_bytes": minimised_from,
    });
    std::fs::write(&path, serde_json::to_vec_pretty(&doc).unwrap()).expect("write replay");
    path
}

fn case_size<C: Serialize>(c: &C) -> usize {
    serde_json::to_vec(c).map(|v| v.len()).unwrap_or(0)
}

static MINIMISING: std::sync::atomic::AtomicBool = std::sync::atomic::AtomicBool::new(false);
pub fn minimising() -> bool {
    MINIMISING.load(Ordering::SeqCst)
}

/// Greedy delta debugging on the engine's shrink candidates; keeps candidates that fail with the
/// same signature. Bounded by an execution budget (no clock involved).
pub fn minimise<E: Engine>(e: &E, case: E::Case, v: Violation, work: &Path, budget: usize, slot: &'static Slot, run: u64) -> (E::Case, Violation, usize) {
    let sig = v.signature();
    let mut cur = case;
    let mut curv = v;
    let mut execs = 0;
    let mut spent: u64 = 0;
    MINIMISING.store(true, Ordering::SeqCst);
    let r = (|| loop {
        let mut progressed = false;
        for cand in e.shrink(&cur, &curv) {
            if execs >= budget {
                return (cur, curv, execs);
            }
            if case_size(&cand) >= case_size(&cur) {
                continue;
            }
            // a deterministic cost budget as well: executions of megabyte cases are slow
            spent += case_size(&cand) as u64;
            if spent > 300_000_000 {
                return (cur, curv, execs);
            }
            execs += 1;
            let mut st = Stats::default();
            if let Some(v2) = guarded(e, slot, run, &cand, &mut st, work) {
                if v2.signature() == sig {
                    cur = cand;
                    curv = v2;
                    progressed = true;
                    break;
                }
            }
        }
        if !progressed {
            return (cur, curv, execs);
        }
    })();
    MINIMISING.store(false, Ordering::SeqCst);
    r
}

/// Replay a file in this (fresh) process. Exit 1 + VIOLATION if it reproduces, 0 otherwise.
pub fn replay<E: Engine>(e: &E, o: &Opts, path: &Path) -> Outcome {
    let doc: Value = match std::fs::read(path).ok().and_then(|b| serde_json::from_slice(&b).ok()) {
        Some(d) => d,
        None => {
            eprintln!("HARNESS-ERROR: cannot read replay file {}", path.display());
            return Outcome { exit: 2 };
        }
    };
    let case: E::Case = match serde_json::from_value(doc["case"].clone()) {
        Ok(c) => c,
        Err(err) => {
            eprintln!("HARNESS-ERROR: replay file does not match engine {}: {}", e.name(), err);
            return Outcome { exit: 2 };
        }
    };
    let _ = std::fs::create_dir_all(&o.work);
    let mut st = Stats::default();
    let slots = make_slots(1);
    let mut o2 = o.clone();
    o2.replay_dir = o.work.clone();
    spawn_watchdog(e, &o2, slots, vec![]);
    let run = doc["run"].as_u64().unwrap_or(0);
    let r = guarded(e, &slots[0], run, &case, &mut st, &o.work);
    let _ = std::fs::remove_dir_all(&o.work);
    match r {
        Some(v) => {
            let expected = doc["violation"]["class"].as_str().unwrap_or("").to_string()
                + "@"
                + doc["violation"]["site"].as_str().unwrap_or("");
            crate::outln!(
                "replay: reproduced {} at op {} (recorded: {} at op {}) detail={}",
                v.signature(),
                v.op_index,
                expected,
                doc["violation"]["op_index"],
                v.detail
            );
            crate::outln!("VIOLATION property={} replay={}", e.property(), path.display());
            Outcome { exit: 1 }
        }
        None => {
            crate::outln!("replay: no violation reproduced from {}", path.display());
            Outcome { exit: 0 }
        }
    }
}

/// Run a batch. Seeds are owned by run indices; results are merged in index order, so the
/// outcome (and the event log) is independent of the worker count.
pub fn run_batch<E: Engine>(e: &E, o: &Opts) -> Outcome {
    if let Some(p) = &o.replay {
        return replay(e, o, p);
    }
    let t0 = clock::real_now();
    let known = load_known(&o.known);
    let _ = std::fs::create_dir_all(&o.work);
    crate::outln!(
        "[{}] engine={} property={} VERIF_SEED={} runs={} threads={} tier={}",
        e.name(),
        e.name(),
        e.property(),
        o.seed,
        o.runs,
        o.threads,
        o.tier
    );
    let slots = make_slots(o.threads.max(1) + 1);
    spawn_watchdog(e, o, slots, known.clone());
    let trace = std::env::var("VSIM_TRACE").is_ok();
    let chunk = e.chunk().max(1);
    let nchunks = (o.runs + chunk - 1) / chunk;
    let first_run: u64 = o.extra.get("first").and_then(|s| s.parse().ok()).unwrap_or(0);
    let next = AtomicU64::new(0);
    let total = Mutex::new(Stats::default());
    let digests: Mutex<Vec<(u64, u64)>> = Mutex::new(Vec::new());
    let viols: Mutex<Vec<(u64, Violation)>> = Mutex::new(Vec::new());
    let samples: Mutex<BTreeMap<u64, Value>> = Mutex::new(BTreeMap::new());
    std::thread::scope(|s| {
        for w in 0..o.threads.max(1) {
            let (next, total, digests, viols, samples) = (&next, &total, &digests, &viols, &samples);
            let work = o.work.join(format!("w{}", w));
            std::thread::Builder::new().stack_size(512 << 20).spawn_scoped(s, move || {
                let _ = std::fs::create_dir_all(&work);
                let mut local = Stats::default();
                let mut ldig = vec![];
                loop {
                    let c = next.fetch_add(1, Ordering::SeqCst);
                    if c >= nchunks {
                        break;
                    }
                    for run in c * chunk..((c + 1) * chunk).min(o.runs) {
                        // development aid: `--first N` shifts the run indices (run k of a shifted batch = run N+k)
                        let run = run + first_run;
                        let case = e.generate(o.seed, run);
                        if run < 3 {
                            samples.lock().unwrap().insert(run, e.sample(&case));
                        }
                        let mut st = Stats::default();
                        if trace {
                            eprintln!("trace: run {}", run);
                        }
                        let v = guarded(e, &slots[w], run, &case, &mut st, &work);
                        ldig.push((run, st.run_digest));
                        local.merge(&st);
                        if let Some(v) = v {
                            let mut g = viols.lock().unwrap();
                            if g.len() < 5000 {
                                g.push((run, v));
                            }
                        }
                    }
                }
                total.lock().unwrap().merge(&local);
                digests.lock().unwrap().extend(ldig);
            }).expect("spawn worker");
        }
    });
    let mut stats = total.into_inner().unwrap();
    let mut digests = digests.into_inner().unwrap();
    digests.sort();
    let mut viols = viols.into_inner().unwrap();
    viols.sort_by_key(|(r, _)| *r);

    if let Some(lp) = &o.log {
        let mut s = String::new();
        s.push_str(&format!("seed {} engine {} runs {}\n", o.seed, e.name(), o.runs));
        for (r, d) in &digests {
            s.push_str(&format!("{} {:016x}\n", r, d));
        }
        for (r, v) in &viols {
            s.push_str(&format!("violation {} {} op{}\n", r, v.signature(), v.op_index));
        }
        std::fs::write(lp, s).expect("write log");
    }

    // group violations by signature, lowest run first
    let mut groups: BTreeMap<String, Vec<(u64, Violation)>> = BTreeMap::new();
    let mut order: Vec<String> = vec![];
    for (r, v) in viols.iter() {
        let sig = v.signature();
        if !groups.contains_key(&sig) {
            order.push(sig.clone());
        }
        groups.entry(sig).or_default().push((*r, v.clone()));
    }
    let mut exit = 0;
    let mut known_hit: Vec<Value> = vec![];
    let mut reported: Vec<Value> = vec![];
    let mut unknown_reported = 0;
    for sig in order {
        let g = &groups[&sig];
        let (run, v) = &g[0];
        if let Some(k) = match_known(&known, e.property(), e.name(), v) {
            crate::outln!(
                "KNOWN-FINDING: property={} engine={} {} ({} of {} runs; first run {}) — {}",
                e.property(),
                e.name(),
                sig,
                g.len(),
                o.runs,
                run,
                k.what
            );
            known_hit.push(json!({"signature": sig, "runs": g.len(), "what": k.what}));
            continue;
        }
        exit = 1;
        let max_report: usize = o.extra.get("max-report").and_then(|s| s.parse().ok()).unwrap_or(4);
        if unknown_reported >= max_report {
            crate::outln!("(further unlisted violation class {} in {} runs not minimised)", sig, g.len());
            continue;
        }
        unknown_reported += 1;
        let case = e.generate(o.seed, *run);
        let before = case_size(&case);
        let (mcase, mv, execs) = minimise(e, case, v.clone(), &o.work, 1500, &slots[o.threads.max(1)], *run);
        let path = write_replay(e, o, *run, &mcase, &mv, before);
        // re-execute the minimised case once more before reporting
        let mut st = Stats::default();
        let again = guarded(e, &slots[o.threads.max(1)], *run, &mcase, &mut st, &o.work);
        let mut reproduced = again.as_ref().map(|a| a.signature() == sig).unwrap_or(false);
        let (mut mcase, mut mv) = (mcase, mv);
        if !reproduced {
            // the minimised case does not fail any more (e.g. a violation that depends on OS-provided hasher keys):
            // fall back to the case as generated and give it three attempts
            let orig = e.generate(o.seed, *run);
            for _ in 0..3 {
                let mut st = Stats::default();
                if let Some(v2) = guarded(e, &slots[o.threads.max(1)], *run, &orig, &mut st, &o.work) {
                    if v2.signature() == sig {
                        mcase = orig.clone();
                        mv = v2;
                        reproduced = true;
                        break;
                    }
                }
            }
        }
        let path = if reproduced { write_replay(e, o, *run, &mcase, &mv, before) } else { path };
        crate::outln!(
            "violation: property={} engine={} class={} site={} run={} op={} runs_affected={} minimised {}→{} bytes in {} execs reproduced={} detail={}",
            e.property(),
            e.name(),
            mv.class,
            mv.site,
            run,
            mv.op_index,
            g.len(),
            before,
            case_size(&mcase),
            execs,
            reproduced,
            mv.detail
        );
        if reproduced {
            crate::outln!("VIOLATION property={} replay={}", e.property(), path.display());
        } else {
            crate::outln!("HARNESS-ERROR: minimised case did not reproduce ({}); treat as harness defect", sig);
            exit = 2;
        }
        reported.push(json!({"signature": sig, "run": run, "runs": g.len(), "replay": path.display().to_string(), "detail": mv.detail}));
    }
    let wall = clock::real_now() - t0;
    for (k, v) in std::mem::take(&mut stats.unclaimed) {
        stats.counters.insert(format!("unclaimed.{}", k), v);
    }
    let samples = samples.into_inner().unwrap();
    let summary = json!({
        "engine": e.name(),
        "property": e.property(),
        "seed": o.seed,
        "tier": o.tier,
        "runs": o.runs,
        "threads": o.threads,
        "wall_s": wall,
        "runs_per_hour": if wall > 0.0 { (o.runs as f64 / wall * 3600.0) as u64 } else { 0 },
        "counters": stats.counters,
        "distinct_nontrivial": stats.sigs.len(),
        "distinct_secondary": stats.sigs2.len(),
        "violations": reported,
        "violating_runs": viols.len(),
        "known_findings_hit": known_hit,
        "samples": samples.values().cloned().collect::<Vec<_>>(),
        "exit": exit,
    });
    if let Some(sp) = &o.summary {
        std::fs::write(sp, serde_json::to_vec_pretty(&summary).unwrap()).expect("write summary");
    }
    crate::outln!(
        "[{}] done: runs={} wall={:.1}s distinct={} violating_runs={} exit={}",
        e.name(),
        o.runs,
        wall,
        stats.sigs.len(),
        viols.len(),
        exit
    );
    let _ = std::fs::remove_dir_all(&o.work);
    Outcome { exit }
}
