//! RoundTripSim (C05): compile-then-load round trip, determinism, alignment independence.
//!
//! What the simulator owns is the *environment* of a compile/load cycle: the wall clock (jumping
//! on every read), the hasher keys (fresh thread per compile), the chunking of the output sink
//! (short writes / EINTR), and the placement of the loaded bytes (owned, borrowed at offset 0..7
//! of an 8-aligned buffer, memory-mapped file). The field round trip against the structured
//! records is the per-run oracle.

use crate::clock;
use crate::harness::{catch, Engine, Stats, Violation};
use crate::rng::{fnv1a, fnv_mix, Rng};
use crate::sink::{FaultySink, SinkEvent, SinkPlan};
use crate::world::{gen_char_def, gen_world, Entry, LexSpec, MatrixSpec, RefStyle, WordRef, WorldGenOpts, WorldRecords};
use serde::{Deserialize, Serialize};
use serde_json::{json, Value};
use std::path::Path;
use std::sync::Arc;
use std::time::{Duration, SystemTime};
use sudachi::analysis::mlist::MorphemeList;
use sudachi::analysis::stateful_tokenizer::StatefulTokenizer;
use sudachi::analysis::stateless_tokenizer::DictionaryAccess;
use sudachi::analysis::Mode;
use sudachi::config::ConfigBuilder;
use sudachi::dic::build::DictBuilder;
use sudachi::dic::dictionary::JapaneseDictionary;
use sudachi::dic::storage::{Storage, SudachiDicData};
use sudachi::dic::subset::InfoSubset;
use sudachi::dic::word_id::WordId;
use sudachi::dic::DictionaryLoader;

#[derive(Clone, Debug, Serialize, Deserialize)]
pub struct Placement {
    /// "owned" | "borrowed" | "file"
    pub storage: String,
    /// offset inside an 8-aligned buffer (borrowed only)
    pub align: usize,
}

#[derive(Clone, Debug, Serialize, Deserialize)]
pub struct RtCase {
    pub rec: WorldRecords,
    pub compile_time: u64,
    pub description: String,
    pub clock_seeds: [u64; 2],
    pub max_jump_s: u64,
    pub sink_seed: u64,
    pub placements: Vec<Placement>,
    pub matrix_fancy_seed: u64,
    pub texts: Vec<String>,
    /// line terminator of the CSV and matrix texts: "\n" or "\r\n"
    #[serde(default)]
    pub crlf: bool,
}

pub struct RoundTripSim;
static REJECT_PRINTED: std::sync::atomic::AtomicBool = std::sync::atomic::AtomicBool::new(false);

fn boundary_string(rng: &mut Rng) -> String {
    let units = [0usize, 1, 63, 64, 126, 127, 128, 129, 255, 256, 300][rng.below(11)];
    match rng.below(4) {
        0 => "a".repeat(units.max(1)),
        1 => "あ".repeat(units.max(1)),
        2 => {
            // astral: 2 UTF-16 units each
            let mut s = "𠮟".repeat(units / 2);
            if units % 2 == 1 || s.is_empty() {
                s.push('x');
            }
            s
        }
        _ => {
            let mut s = String::new();
            let alpha = ["a", "あ", "𠮟", "ｶ", "é", "\u{3099}"];
            let mut u = 0;
            while u < units.max(1) {
                let c = alpha[rng.below(alpha.len())];
                u += c.encode_utf16().count();
                s.push_str(c);
            }
            s
        }
    }
}

/// add the features C05 quantifies over to the generated records
fn enrich(rng: &mut Rng, rec: &mut WorldRecords) {
    // matrices of any shape: ids stay below min(left,right) so that they are valid both for the
    // compiler's check and for the way the analysis indexes the matrix
    let used_max = rec
        .system
        .entries
        .iter()
        .chain(rec.users.iter().flat_map(|u| u.entries.iter()))
        .map(|e| e.left.max(e.right))
        .max()
        .unwrap_or(0)
        .max(0) as usize
        + 1;
    if rng.chance(1, 2) {
        let mut nl = used_max + rng.below(4);
        let mut nr = used_max + rng.below(4);
        // one dimension across the 8-bit boundaries now and then (cell offsets beyond 64 Ki bytes as well)
        if rng.chance(1, 12) {
            let big = [127usize, 128, 129, 255, 256, 257][rng.below(6)];
            if rng.chance(1, 2) {
                nl = nl.max(big);
            } else {
                nr = nr.max(big);
            }
        }
        let mut costs = Vec::with_capacity(nl * nr);
        for _ in 0..nl * nr {
            costs.push(match rng.below(12) {
                0 => 32767,
                1 => -32768,
                2 => 0,
                _ => rng.range(-3000, 9000) as i16,
            });
        }
        rec.matrix = MatrixSpec { num_left: nl, num_right: nr, costs };
    }
    let n = rec.system.entries.len();
    // system entries referenced inline from a user dictionary are looked up by headword there
    let mut inline_from_user = vec![false; n];
    for u in &rec.users {
        for e in &u.entries {
            for r in e.split_a.iter().chain(e.split_b.iter()) {
                if r.dic == 0 && r.style == RefStyle::Inline {
                    inline_from_user[r.index] = true;
                }
            }
        }
    }
    for i in 0..n {
        let e = &mut rec.system.entries[i];
        if inline_from_user[i] {
            continue;
        }
        if rng.chance(1, 6) {
            e.escape = true;
        }
        if rng.chance(1, 8) && e.surface.chars().count() <= 4 {
            // only non-key strings get boundary lengths (keys stay short so that texts can contain them)
            match rng.below(3) {
                0 => e.reading = boundary_string(rng),
                1 => e.norm = boundary_string(rng),
                _ => {
                    e.headword = boundary_string(rng);
                }
            }
            if e.reading.is_empty() {
                e.reading = e.headword.clone();
            }
            if e.norm.is_empty() {
                e.norm = e.headword.clone();
            }
            if e.headword.is_empty() {
                e.headword = e.surface.clone();
            }
        }
        if rng.chance(1, 12) {
            let k = [1usize, 2, 126, 127][rng.below(4)];
            e.synonyms = (0..k).map(|_| rng.next_u64() as u32).collect();
        }
        if rng.chance(1, 20) {
            e.synonyms = vec![0, u32::MAX, 1];
        }
    }
    // a long key at the 127/128 byte boundary of the key-length prefix
    if rng.chance(1, 3) {
        let len = [126usize, 127, 128, 129][rng.below(4)];
        let mut e = rec.system.entries[0].clone();
        e.surface = "k".repeat(len);
        e.headword = e.surface.clone();
        e.reading = "キー".to_string();
        e.norm = e.surface.clone();
        e.dic_form = None;
        e.split_a.clear();
        e.split_b.clear();
        e.word_structure.clear();
        e.split_type = "A".into();
        e.escape = false;
        rec.system.entries.push(e);
    }
    // many split items
    if rng.chance(1, 10) && n > 2 {
        let k = [100usize, 126, 127][rng.below(3)];
        let tgt = rng.below(n);
        let mut e = rec.system.entries[0].clone();
        e.surface = format!("多{}", rng.below(1000));
        e.headword = e.surface.clone();
        e.reading = e.surface.clone();
        e.norm = e.surface.clone();
        e.dic_form = None;
        e.split_type = "C".into();
        e.split_a = (0..k).map(|_| WordRef { dic: 0, index: tgt, style: RefStyle::Num }).collect();
        e.split_b = vec![];
        e.word_structure = (0..k).map(|_| WordRef { dic: 0, index: tgt, style: RefStyle::Num }).collect();
        e.escape = false;
        rec.system.entries.push(e);
    }
    // homographs that differ only in their reading, each referenced inline by another word
    if rng.chance(1, 3) && n > 0 {
        let base = rng.below(n);
        if !inline_from_user[base] && rec.system.entries[base].surface.chars().count() <= 4 {
            let mut twin = rec.system.entries[base].clone();
            twin.reading = format!("{}ヨミ", twin.reading);
            twin.dic_form = None;
            twin.split_a.clear();
            twin.split_b.clear();
            twin.word_structure.clear();
            twin.split_type = "A".into();
            let unique = |lex: &LexSpec, e: &Entry| lex.entries.iter().filter(|x| x.surface == e.surface && x.pos == e.pos && x.reading == e.reading).count() == 0;
            if unique(&rec.system, &twin) && rec.system.entries.iter().filter(|x| x.surface == twin.surface && x.pos == twin.pos && x.reading == rec.system.entries[base].reading).count() == 1 {
                rec.system.entries.push(twin);
                let twin_idx = rec.system.entries.len() - 1;
                for (k, tgt) in [base, twin_idx].iter().enumerate() {
                    let mut w = rec.system.entries[0].clone();
                    w.surface = format!("同{}{}", k, rng.below(1000));
                    w.headword = w.surface.clone();
                    w.reading = w.surface.clone();
                    w.norm = w.surface.clone();
                    w.dic_form = None;
                    w.escape = false;
                    w.split_type = "C".into();
                    w.split_a = vec![WordRef { dic: 0, index: *tgt, style: RefStyle::Inline }];
                    w.split_b = if rng.chance(1, 2) { vec![WordRef { dic: 0, index: *tgt, style: RefStyle::Inline }] } else { vec![] };
                    w.word_structure = vec![];
                    rec.system.entries.push(w);
                }
            }
        }
    }
    // surfaces / forms with characters that mean something to a CSV reader: a leading '#', leading and
    // trailing blanks, quotes, separators of other CSV dialects (the rows stay plain, unreferenced words)
    if rng.chance(1, 3) {
        const SPECIAL: [&str; 10] = ["#", "#あ", " a", "a ", "a\"b", "a,b", "a;b", "a\tb", "'a'", "# 注"];
        for _ in 0..1 + rng.below(3) {
            let sp = SPECIAL[rng.below(SPECIAL.len())];
            if rec.system.entries.iter().any(|x| x.surface == sp) {
                continue;
            }
            let mut e = rec.system.entries[0].clone();
            e.surface = sp.to_string();
            e.headword = if rng.chance(1, 2) { sp.to_string() } else { format!("{}見出し", sp) };
            e.reading = if rng.chance(1, 2) { sp.to_string() } else { "#ヨミ".to_string() };
            e.norm = sp.to_string();
            e.dic_form = None;
            e.split_a.clear();
            e.split_b.clear();
            e.word_structure.clear();
            e.split_type = "A".into();
            e.escape = false;
            // anywhere, also as the very first row: later numeric references are re-pointed below
            if rng.chance(1, 2) {
                rec.system.entries.push(e);
            } else {
                let at = rng.below(rec.system.entries.len() + 1);
                rec.system.entries.insert(at, e);
                let bump = |r: &mut WordRef| {
                    if r.dic == 0 && r.index >= at {
                        r.index += 1;
                    }
                };
                for x in rec.system.entries.iter_mut() {
                    x.split_a.iter_mut().for_each(bump);
                    x.split_b.iter_mut().for_each(bump);
                    x.word_structure.iter_mut().for_each(bump);
                    if let Some(d) = x.dic_form.as_mut() {
                        bump(d);
                    }
                }
                for u in rec.users.iter_mut() {
                    for x in u.entries.iter_mut() {
                        x.split_a.iter_mut().for_each(bump);
                        x.split_b.iter_mut().for_each(bump);
                        x.word_structure.iter_mut().for_each(bump);
                        if let Some(d) = x.dic_form.as_mut() {
                            bump(d);
                        }
                    }
                }
            }
        }
    }
    // word ids and section offsets beyond 16 bits: a lexicon of about 2^16 plain words (rare: such a run costs a second)
    if rng.chance(1, 300) {
        let k = [65530usize, 65536, 65540, 70000][rng.below(4)];
        let proto = {
            let mut e = rec.system.entries[0].clone();
            e.dic_form = None;
            e.split_a.clear();
            e.split_b.clear();
            e.word_structure.clear();
            e.split_type = "A".into();
            e.escape = false;
            e.synonyms.clear();
            e
        };
        let have = rec.system.entries.len();
        for i in 0..k.saturating_sub(have) {
            let mut e = proto.clone();
            e.surface = format!("大{:x}", i);
            e.headword = e.surface.clone();
            e.reading = if i % 3 == 0 { "ダイ".to_string() } else { e.surface.clone() };
            e.norm = e.surface.clone();
            rec.system.entries.push(e);
        }
    }
    // part-of-speech ids across the 7/8-bit boundaries: many words with a part of speech of their own
    if rng.chance(1, 20) {
        let k = [120usize, 127, 128, 129, 250, 255, 256, 257][rng.below(8)];
        for i in 0..k {
            let mut e = rec.system.entries[0].clone();
            e.surface = format!("詞{}", i);
            e.headword = e.surface.clone();
            e.reading = "シ".to_string();
            e.norm = e.surface.clone();
            e.pos = [format!("品{}", i), "*".into(), "*".into(), "*".into(), "*".into(), format!("活{}", i % 7)];
            e.dic_form = None;
            e.split_a.clear();
            e.split_b.clear();
            e.word_structure.clear();
            e.split_type = "A".into();
            e.escape = false;
            e.synonyms.clear();
            rec.system.entries.push(e);
        }
    }
    for u in rec.users.iter_mut() {
        // word structure of user words may name user words too
        for e in u.entries.iter_mut() {
            if !e.split_a.is_empty() && rng.chance(1, 2) {
                e.word_structure = e
                    .split_a
                    .iter()
                    .map(|r| WordRef { dic: r.dic, index: r.index, style: if r.dic == 1 { RefStyle::UserNum } else { RefStyle::Num } })
                    .collect();
            }
        }
        // a user row that re-declares a system word (same surface, part of speech and reading) and another row that
        // names it inline: references are resolved against the lexicon being compiled first, then the system dictionary
        if rng.chance(1, 4) && !rec.system.entries.is_empty() {
            let t = rec.system.entries[rng.below(rec.system.entries.len())].clone();
            let clash = u.entries.iter().any(|e| e.surface == t.surface && e.pos == t.pos && e.reading == t.reading);
            // (an inline reference is itself comma separated: only plain surfaces / readings can be named that way)
            let plain = |x: &str| x.chars().all(|c| !c.is_ascii() || c.is_ascii_alphanumeric());
            if !clash && t.left >= 0 && plain(&t.surface) && plain(&t.reading) && !t.escape {
                let mut dup = t.clone();
                dup.headword = format!("{}利", t.surface);
                dup.norm = dup.surface.clone();
                dup.dic_form = None;
                dup.split_a.clear();
                dup.split_b.clear();
                dup.word_structure.clear();
                dup.split_type = "A".into();
                dup.escape = false;
                u.entries.push(dup);
                let di = u.entries.len() - 1;
                let mut w = u.entries[di].clone();
                w.surface = format!("再{}", rng.below(1000));
                w.headword = w.surface.clone();
                w.reading = w.surface.clone();
                w.norm = w.surface.clone();
                w.split_type = "C".into();
                w.split_a = vec![WordRef { dic: 1, index: di, style: RefStyle::Inline }];
                w.split_b = vec![WordRef { dic: 1, index: di, style: RefStyle::Inline }];
                u.entries.push(w);
            }
        }
        let un = u.entries.len();
        for i in 0..un {
            if rng.chance(1, 6) {
                u.entries[i].escape = true;
            }
            if rng.chance(1, 6) {
                // dictionary form inside the same (user) lexicon, plain or U-prefixed
                let t = rng.below(un);
                u.entries[i].dic_form = Some(WordRef { dic: 1, index: t, style: if rng.chance(1, 2) { RefStyle::UserNum } else { RefStyle::Num } });
            }
            if rng.chance(1, 8) {
                u.entries[i].reading = boundary_string(rng);
                if u.entries[i].reading.is_empty() {
                    u.entries[i].reading = u.entries[i].headword.clone();
                }
            }
        }
    }
}

/// inline references must name exactly one entry *after* all enrichment: demote ambiguous ones to numeric
fn disambiguate(rec: &mut WorldRecords) {
    let same = |a: &Entry, b: &Entry| a.surface == b.surface && a.pos == b.pos && a.reading == b.reading;
    let sys = rec.system.clone();
    for e in rec.system.entries.iter_mut() {
        for r in e.split_a.iter_mut().chain(e.split_b.iter_mut()) {
            if r.style == RefStyle::Inline && sys.entries.iter().filter(|x| same(x, &sys.entries[r.index])).count() != 1 {
                r.style = RefStyle::Num;
            }
        }
    }
    for u in rec.users.iter_mut() {
        let snap = u.clone();
        for e in u.entries.iter_mut() {
            for r in e.split_a.iter_mut().chain(e.split_b.iter_mut()) {
                if r.style == RefStyle::Inline && r.dic == 1 {
                    // a reference to a row of the same user lexicon: later enrichment (boundary-length readings falling
                    // back to the headword) can make another row carry the same triple
                    if snap.entries.iter().filter(|x| same(x, &snap.entries[r.index])).count() != 1 {
                        r.style = RefStyle::UserNum;
                    }
                }
                if r.style == RefStyle::Inline && r.dic == 0 {
                    let t = &sys.entries[r.index];
                    let in_user = snap.entries.iter().any(|x| same(x, t));
                    let in_sys = sys.entries.iter().filter(|x| same(x, t)).count();
                    // the compiled system dictionary is searched by headword
                    let by_headword = sys.entries.iter().filter(|x| x.headword == t.surface && x.pos == t.pos).count();
                    if in_user || in_sys != 1 || t.headword != t.surface || by_headword != 1 {
                        r.style = RefStyle::Num;
                    }
                }
            }
        }
    }
}

impl Engine for RoundTripSim {
    type Case = RtCase;
    fn name(&self) -> &'static str {
        "roundtrip"
    }
    fn property(&self) -> &'static str {
        "C05"
    }
    fn chunk(&self) -> u64 {
        1
    }
    fn cpu_budget_s(&self) -> u64 {
        60
    }

    fn generate(&self, seed: u64, run: u64) -> RtCase {
        let mut rng = Rng::derive(seed, "roundtrip", run);
        let opts = WorldGenOpts { max_users: 2, max_rows: 30, full_plugins: false };
        let (spec, mut rec) = gen_world(&mut rng, &opts);
        enrich(&mut rng, &mut rec);
        disambiguate(&mut rec);
        let mut placements = vec![];
        let np = 2 + rng.below(2);
        for i in 0..np {
            placements.push(match (i, rng.below(8)) {
                (0, _) => Placement { storage: "owned".into(), align: 0 },
                (_, 0) => Placement { storage: "file".into(), align: 0 },
                _ => Placement { storage: "borrowed".into(), align: rng.below(8) },
            });
        }
        let mut texts = vec![];
        for _ in 0..3 {
            texts.push(crate::world::gen_text(&mut rng, &spec.keys));
        }
        let desc = match rng.below(8) {
            0 => String::new(),
            1 => "x".repeat(256),
            2 => "説明 description".to_string(),
            3 => format!("a{}", "東".repeat(85)), // 256 bytes, 86 characters
            4 => "𠮟".repeat(64),               // 256 bytes, 64 characters, 128 UTF-16 units
            5 => "東".repeat(85),               // 255 bytes
            _ => "d".repeat(rng.below(256)),
        };
        RtCase {
            rec,
            compile_time: match rng.below(4) {
                0 => 0,
                1 => 4_102_444_800,
                _ => 1_600_000_000 + rng.below(200_000_000) as u64,
            },
            description: desc,
            clock_seeds: [rng.next_u64(), rng.next_u64()],
            max_jump_s: [1u64, 3600, 100_000_000][rng.below(3)],
            sink_seed: rng.next_u64(),
            placements,
            matrix_fancy_seed: rng.next_u64(),
            texts,
            crlf: rng.chance(1, 6),
        }
    }

    fn execute(&self, case: &RtCase, stats: &mut Stats, work: &Path) -> Option<Violation> {
        execute(case, stats, work)
    }

    fn shrink(&self, case: &RtCase, _v: &Violation) -> Vec<RtCase> {
        let mut out = vec![];
        for u in (0..case.rec.users.len()).rev() {
            let mut c = case.clone();
            c.rec.users.remove(u);
            out.push(c);
        }
        // drop the last entry of a lexicon if nothing refers to it
        let referenced = |lex: &LexSpec, users: &[LexSpec], dic: u8, idx: usize| -> bool {
            let hit = |e: &Entry| {
                e.split_a.iter().chain(e.split_b.iter()).chain(e.word_structure.iter()).chain(e.dic_form.iter()).any(|r| r.dic == dic && r.index == idx)
            };
            (dic == 0 && lex.entries.iter().any(hit)) || users.iter().any(|u| u.entries.iter().any(hit))
        };
        {
            let n = case.rec.system.entries.len();
            if n > 1 && !referenced(&case.rec.system, &case.rec.users, 0, n - 1) {
                let mut c = case.clone();
                c.rec.system.entries.pop();
                out.push(c);
            }
        }
        for (ui, u) in case.rec.users.iter().enumerate() {
            let n = u.entries.len();
            if n > 1 && !u.entries.iter().any(|e| e.split_a.iter().chain(e.split_b.iter()).chain(e.dic_form.iter()).any(|r| r.dic == 1 && r.index == n - 1)) {
                let mut c = case.clone();
                c.rec.users[ui].entries.pop();
                out.push(c);
            }
        }
        // clear references / simplify entries
        for i in 0..case.rec.system.entries.len() {
            let e = &case.rec.system.entries[i];
            if !e.split_a.is_empty() || !e.split_b.is_empty() || !e.word_structure.is_empty() || e.dic_form.is_some() {
                let mut c = case.clone();
                let x = &mut c.rec.system.entries[i];
                x.split_a.clear();
                x.split_b.clear();
                x.word_structure.clear();
                x.dic_form = None;
                x.split_type = "A".into();
                out.push(c);
            }
            if !e.synonyms.is_empty() {
                let mut c = case.clone();
                c.rec.system.entries[i].synonyms.clear();
                out.push(c);
            }
            if e.escape {
                let mut c = case.clone();
                c.rec.system.entries[i].escape = false;
                out.push(c);
            }
            if e.reading.len() > 8 || e.norm.len() > 8 || e.headword.len() > 8 {
                let mut c = case.clone();
                let x = &mut c.rec.system.entries[i];
                x.headword = x.surface.clone();
                x.reading = x.surface.clone();
                x.norm = x.surface.clone();
                out.push(c);
            }
        }
        if case.placements.len() > 1 {
            for p in 0..case.placements.len() {
                let mut c = case.clone();
                c.placements.remove(p);
                out.push(c);
            }
        }
        if !case.texts.is_empty() {
            let mut c = case.clone();
            c.texts.clear();
            out.push(c);
        }
        if !case.description.is_empty() {
            let mut c = case.clone();
            c.description.clear();
            out.push(c);
        }
        out
    }

    fn sample(&self, case: &RtCase) -> Value {
        json!({"matrix": format!("{}x{}", case.rec.matrix.num_left, case.rec.matrix.num_right),
               "system_entries": case.rec.system.entries.len(), "user_dicts": case.rec.users.iter().map(|u| u.entries.len()).collect::<Vec<_>>(),
               "compile_time": case.compile_time, "max_clock_jump_s": case.max_jump_s, "placements": case.placements,
               "first_entries": case.rec.system.entries.iter().take(3).map(|e| json!({"surface": crate::proj::trunc(&e.surface), "reading_units": e.reading.encode_utf16().count(), "escape": e.escape, "split_a": e.split_a.len(), "synonyms": e.synonyms.len()})).collect::<Vec<_>>()})
    }
}

fn viol(class: &str, site: &str, op_index: usize, detail: Value) -> Option<Violation> {
    Some(Violation { class: class.to_string(), site: site.to_string(), op_index, detail })
}

fn transient_plan(rng: &mut Rng, approx_len: usize) -> SinkPlan {
    let mut ev = vec![];
    for _ in 0..rng.below(10) {
        if rng.chance(1, 2) {
            ev.push(SinkEvent::Short { at: rng.below(approx_len + 1), n: 1 + rng.below(9) });
        } else {
            ev.push(SinkEvent::Eintr { at: rng.below(approx_len + 1), times: 1 + rng.below(3) });
        }
    }
    SinkPlan { events: ev, max_chunk: [0usize, 0, 1, 7, 4096][rng.below(5)], fail_flush: false }
}

struct CompileEnv {
    clock_seed: u64,
    max_jump: u64,
    plan: Option<SinkPlan>,
    /// read the lexicon in two parts (split after this many lines) with resolve + compile in between
    staged_at: Option<usize>,
    /// before the compile that counts, compile once on the same builder into a device that fails for good at this
    /// byte offset (disk full): the failed attempt must leave nothing behind that changes the next output
    failed_first: Option<usize>,
    /// another matrix of the same shape (no zero cell) read into the builder before the real one
    decoy_matrix: Option<String>,
}

/// compile on a fresh thread (fresh hasher keys) under the simulated clock
fn compile_on_thread(
    system: Option<Arc<Vec<u8>>>,
    matrix: String,
    csv: String,
    time: u64,
    desc: String,
    env: CompileEnv,
) -> Result<(Result<Vec<u8>, String>, u64, u64), crate::harness::PanicInfo> {
    let h = std::thread::Builder::new().stack_size(256 << 20).spawn(move || {
        catch(move || {
            clock::sim_on(1_000_000 + env.clock_seed % 1_000_000_000, env.clock_seed, env.max_jump);
            let r = (|| -> Result<Vec<u8>, String> {
                let mut sink = FaultySink::new(env.plan.clone().unwrap_or_default());
                match &system {
                    None => {
                        let mut b = DictBuilder::new_system();
                        b.set_compile_time(SystemTime::UNIX_EPOCH + Duration::from_secs(time));
                        b.set_description(desc.clone());
                        if let Some(d) = &env.decoy_matrix {
                            b.read_conn(d.as_bytes()).map_err(|e| format!("read_conn(decoy): {}", e))?;
                        }
                        b.read_conn(matrix.as_bytes()).map_err(|e| format!("read_conn: {}", e))?;
                        match env.staged_at {
                            None => {
                                b.read_lexicon(csv.as_bytes()).map_err(|e| format!("read_lexicon: {}", e))?;
                            }
                            Some(k) => {
                                // the first rows alone (their forward references may not resolve or validate yet:
                                // results of this stage are ignored), an intermediate compile, then the rest
                                let lines: Vec<&str> = csv.split_inclusive('\n').collect();
                                let k = k.min(lines.len());
                                let (p1, p2): (String, String) = (lines[..k].concat(), lines[k..].concat());
                                b.read_lexicon(p1.as_bytes()).map_err(|e| format!("read_lexicon(1): {}", e))?;
                                let _ = b.resolve();
                                let mut scratch: Vec<u8> = Vec::new();
                                let _ = b.compile(&mut scratch);
                                b.read_lexicon(p2.as_bytes()).map_err(|e| format!("read_lexicon(2): {}", e))?;
                            }
                        }
                        b.resolve().map_err(|e| format!("resolve: {}", e))?;
                        if let Some(at) = env.failed_first {
                            let mut bad = FaultySink::new(SinkPlan {
                                events: vec![SinkEvent::Hard { at, err: "StorageFull".into(), mode: if at % 2 == 0 { "prefix" } else { "whole" }.into(), sticky: true }],
                                max_chunk: 0,
                                fail_flush: false,
                            });
                            let _ = b.compile(&mut bad);
                        }
                        b.compile(&mut sink).map_err(|e| format!("compile: {}", e))?;
                    }
                    Some(sys) => {
                        let loaded = DictionaryLoader::read_system_dictionary(sys.as_slice())
                            .map_err(|e| format!("load system: {}", e))?
                            .to_loaded()
                            .ok_or("no grammar")?;
                        let mut b = DictBuilder::new_user(&loaded);
                        b.set_compile_time(SystemTime::UNIX_EPOCH + Duration::from_secs(time));
                        b.set_description(desc.clone());
                        b.read_lexicon(csv.as_bytes()).map_err(|e| format!("read_lexicon(user): {}", e))?;
                        b.resolve().map_err(|e| format!("resolve(user): {}", e))?;
                        if let Some(at) = env.failed_first {
                            let mut bad = FaultySink::new(SinkPlan {
                                events: vec![SinkEvent::Hard { at, err: "StorageFull".into(), mode: if at % 2 == 0 { "prefix" } else { "whole" }.into(), sticky: true }],
                                max_chunk: 0,
                                fail_flush: false,
                            });
                            let _ = b.compile(&mut bad);
                        }
                        b.compile(&mut sink).map_err(|e| format!("compile(user): {}", e))?;
                    }
                }
                Ok(sink.data)
            })();
            let (reads, now) = clock::sim_off();
            (r, reads, now)
        })
    });
    match h.expect("spawn").join() {
        Ok(r) => r,
        Err(_) => Err(crate::harness::PanicInfo { site: "thread".into(), msg: "compile thread died".into() }),
    }
}

/// 8-aligned heap buffer holding `bytes` at offset `align`; freed by `free_carved`
fn carve(bytes: &[u8], align: usize) -> (*mut u64, usize, &'static [u8]) {
    let words = (bytes.len() + align + 15) / 8;
    let mut v: Vec<u64> = vec![0u64; words];
    let p = v.as_mut_ptr();
    std::mem::forget(v);
    let base = p as *mut u8;
    unsafe {
        std::ptr::copy_nonoverlapping(bytes.as_ptr(), base.add(align), bytes.len());
        let s: &'static [u8] = std::slice::from_raw_parts(base.add(align), bytes.len());
        (p, words, s)
    }
}

unsafe fn free_carved(p: *mut u64, words: usize) {
    drop(Vec::from_raw_parts(p, words, words));
}

#[derive(PartialEq, Clone, Debug)]
struct EntryObs {
    headword: String,
    head_len: usize,
    pos: Vec<String>,
    norm: String,
    dic_form_id: i32,
    dic_form: String,
    reading: String,
    a: Vec<u32>,
    b: Vec<u32>,
    ws: Vec<u32>,
    syn: Vec<u32>,
    params: (i16, i16, i16),
}

fn observe<D: DictionaryAccess>(dict: &D, dic: u8, n: usize) -> Result<Vec<EntryObs>, String> {
    let lex = dict.lexicon();
    let g = dict.grammar();
    let mut out = Vec::with_capacity(n);
    for i in 0..n {
        let wid = WordId::new(dic, i as u32);
        let wi = lex.get_word_info(wid).map_err(|e| format!("entry {}: {}", i, e))?;
        let pos = g.pos_list.get(wi.pos_id() as usize).cloned().ok_or_else(|| format!("entry {}: pos id {} out of range", i, wi.pos_id()))?;
        // the same entry through a seeded partial field request: every requested field must equal the full load
        {
            let bits = ((i as u32).wrapping_mul(2654435761) >> 7) & 1023;
            let sub = InfoSubset::from_bits_truncate(bits);
            let ws = lex.get_word_info_subset(wid, sub).map_err(|e| format!("entry {} subset {:#x}: {}", i, bits, e))?;
            let bad = |f: &str| Err(format!("entry {}: field {} loaded with subset {:#x} differs from the full load", i, f, bits));
            if sub.contains(InfoSubset::SURFACE) && ws.surface() != wi.surface() {
                return bad("surface");
            }
            if sub.contains(InfoSubset::SURFACE | InfoSubset::NORMALIZED_FORM) && ws.normalized_form() != wi.normalized_form() {
                return bad("normalized_form");
            }
            if sub.contains(InfoSubset::SURFACE | InfoSubset::READING_FORM) && ws.reading_form() != wi.reading_form() {
                return bad("reading_form");
            }
            if sub.contains(InfoSubset::POS_ID) && ws.pos_id() != wi.pos_id() {
                return bad("pos_id");
            }
            if sub.contains(InfoSubset::DIC_FORM_WORD_ID) && ws.dictionary_form_word_id() != wi.dictionary_form_word_id() {
                return bad("dictionary_form_word_id");
            }
            if sub.contains(InfoSubset::SPLIT_A) && ws.a_unit_split() != wi.a_unit_split() {
                return bad("split_a");
            }
            if sub.contains(InfoSubset::SPLIT_B) && ws.b_unit_split() != wi.b_unit_split() {
                return bad("split_b");
            }
            if sub.contains(InfoSubset::WORD_STRUCTURE) && ws.word_structure() != wi.word_structure() {
                return bad("word_structure");
            }
            if sub.contains(InfoSubset::SYNONYM_GROUP_ID) && ws.synonym_group_ids() != wi.synonym_group_ids() {
                return bad("synonym_group_ids");
            }
        }
        out.push(EntryObs {
            headword: wi.surface().to_string(),
            head_len: wi.head_word_length(),
            pos,
            norm: wi.normalized_form().to_string(),
            dic_form_id: wi.dictionary_form_word_id(),
            dic_form: wi.dictionary_form().to_string(),
            reading: wi.reading_form().to_string(),
            a: wi.a_unit_split().iter().map(|w| w.as_raw()).collect(),
            b: wi.b_unit_split().iter().map(|w| w.as_raw()).collect(),
            ws: wi.word_structure().iter().map(|w| w.as_raw()).collect(),
            syn: wi.synonym_group_ids().to_vec(),
            params: lex.get_word_param(wid),
        });
    }
    Ok(out)
}

fn expect_ref(r: &WordRef, dic_id_of_user: u8) -> u32 {
    let dic = if r.dic == 0 { 0 } else { dic_id_of_user };
    ((dic as u32) << 28) | r.index as u32
}

fn check_entries(lex: &LexSpec, sys: &LexSpec, obs: &[EntryObs], dic_id: u8) -> Option<(usize, String, String, String)> {
    for (i, e) in lex.entries.iter().enumerate() {
        let o = &obs[i];
        macro_rules! cmp {
            ($field:expr, $got:expr, $exp:expr) => {
                if $got != $exp {
                    return Some((i, $field.to_string(), crate::proj::trunc(&format!("{:?}", $got)), crate::proj::trunc(&format!("{:?}", $exp))));
                }
            };
        }
        cmp!("headword", o.headword, e.headword);
        cmp!("key_length", o.head_len, e.surface.len());
        cmp!("pos", o.pos, e.pos.to_vec());
        cmp!("reading", o.reading, e.reading);
        cmp!("normalized_form", o.norm, e.norm);
        match &e.dic_form {
            None => {
                cmp!("dic_form_id", o.dic_form_id, -1);
                cmp!("dictionary_form", o.dic_form, e.headword);
            }
            Some(r) => {
                cmp!("dic_form_id", o.dic_form_id, r.index as i32);
                // resolved inside the same lexicon
                let tgt = &lex.entries[r.index];
                let _ = sys;
                cmp!("dictionary_form", o.dic_form, tgt.headword);
            }
        }
        let ea: Vec<u32> = e.split_a.iter().map(|r| expect_ref(r, dic_id)).collect();
        let eb: Vec<u32> = e.split_b.iter().map(|r| expect_ref(r, dic_id)).collect();
        let ew: Vec<u32> = e.word_structure.iter().map(|r| expect_ref(r, dic_id)).collect();
        cmp!("split_a", o.a, ea);
        cmp!("split_b", o.b, eb);
        cmp!("word_structure", o.ws, ew);
        cmp!("synonyms", o.syn, e.synonyms);
        cmp!("left_id", o.params.0, e.left);
        cmp!("right_id", o.params.1, e.right);
        if !(dic_id > 0 && e.cost == -32768) {
            cmp!("cost", o.params.2, e.cost);
        }
    }
    None
}

fn snapshot(dict: &Arc<JapaneseDictionary>, texts: &[String]) -> Vec<String> {
    let mut out = vec![];
    for m in [Mode::C, Mode::A] {
        for t in texts {
            if t.contains('\u{0}') {
                continue;
            }
            let mut tok = StatefulTokenizer::create(dict.clone(), false, m);
            tok.reset().push_str(t);
            match tok.do_tokenize() {
                Err(e) => out.push(format!("ERR {}", e)),
                Ok(()) => {
                    let mut l = MorphemeList::empty(dict.clone());
                    if l.collect_results(&mut tok).is_err() {
                        out.push("ERR collect".into());
                        continue;
                    }
                    let p = crate::proj::project(&l, InfoSubset::all());
                    out.push(serde_json::to_string(&p.morphemes).unwrap());
                }
            }
        }
    }
    out
}

pub fn execute(case: &RtCase, stats: &mut Stats, work: &Path) -> Option<Violation> {
    let rec = &case.rec;
    let eol = |t: String| if case.crlf { t.replace('\n', "\r\n") } else { t };
    let matrix_text = eol(rec.matrix.render(&mut Rng::new(case.matrix_fancy_seed), true));
    let sys_csv = eol(rec.system.render(None));
    if case.crlf {
        stats.inc("inputs.crlf");
    }
    let mut srng = Rng::new(case.sink_seed);
    let mut digest = fnv1a(b"roundtrip");

    // ---- compile twice under different environments -------------------------------------
    let mut compiled: Vec<(Vec<u8>, Vec<Vec<u8>>)> = vec![];
    for k in 0..2 {
        let plan = if k == 0 { None } else { Some(transient_plan(&mut srng, 4000)) };
        let r = compile_on_thread(
            None,
            matrix_text.clone(),
            sys_csv.clone(),
            case.compile_time,
            case.description.clone(),
            CompileEnv {
                clock_seed: case.clock_seeds[k],
                max_jump: case.max_jump_s,
                plan,
                staged_at: if k == 1 && case.sink_seed % 3 == 0 && !sys_csv.contains('"') { Some((case.sink_seed as usize / 3) % (rec.system.entries.len().max(1))) } else { None },
                decoy_matrix: if k == 1 && case.sink_seed % 7 == 3 {
                    let m = crate::world::MatrixSpec {
                        num_left: rec.matrix.num_left,
                        num_right: rec.matrix.num_right,
                        costs: (0..rec.matrix.costs.len()).map(|i| 7 + (i % 5) as i16).collect(),
                    };
                    Some(m.render(&mut Rng::new(0), false))
                } else {
                    None
                },
                failed_first: if k == 1 && case.sink_seed % 5 == 1 { Some((case.sink_seed as usize / 5) % 6000) } else { None },
            },
        );
        let (sys_bytes, reads, now) = match r {
            Err(p) => return viol("panic", &p.site, k, json!({"stage":"compile-system","message":p.msg})),
            Ok((Err(e), _, _)) => {
                // the generator only produces inputs the compiler is meant to accept
                stats.inc("world_build_failed");
                if !crate::harness::minimising() && !REJECT_PRINTED.swap(true, std::sync::atomic::Ordering::SeqCst) {
                    eprintln!("roundtrip: generated input rejected: {}", e);
                }
                return None;
            }
            Ok((Ok(b), reads, now)) => (b, reads, now),
        };
        stats.add("clock.reads", reads);
        stats.add("clock.simulated_seconds", now.saturating_sub(1_000_000));
        if k == 0 {
            // the system dictionary alone must read back before anything is built on top of it
            let nsys = rec.system.entries.len();
            let sb = sys_bytes.clone();
            let r = catch(move || -> Result<Vec<EntryObs>, String> {
                let l = DictionaryLoader::read_system_dictionary(&sb).map_err(|e| format!("{}", e))?.to_loaded().ok_or("no grammar")?;
                observe(&l, 0, nsys)
            });
            match r {
                Err(p) => return viol("panic", &p.site, 2, json!({"stage":"read-system-alone","message":p.msg})),
                Ok(Err(e)) => return viol("field-mismatch", "read", 2, json!({"error": e, "stage": "system dictionary alone"})),
                Ok(Ok(obs)) => {
                    if let Some((i, field, got, exp)) = check_entries(&rec.system, &rec.system, &obs, 0) {
                        return viol("field-mismatch", &field, 2, json!({"dictionary": "system", "entry": i, "surface": crate::proj::trunc(&rec.system.entries[i].surface), "got": got, "expected": exp}));
                    }
                }
            }
        }
        let sys_arc = Arc::new(sys_bytes.clone());
        let mut users = vec![];
        for (ui, u) in rec.users.iter().enumerate() {
            let csv = eol(u.render(Some(&rec.system)));
            let plan = if k == 0 { None } else { Some(transient_plan(&mut srng, 1500)) };
            let r = compile_on_thread(
                Some(sys_arc.clone()),
                String::new(),
                csv,
                case.compile_time,
                case.description.clone(),
                CompileEnv { clock_seed: case.clock_seeds[k] ^ (ui as u64 + 1), max_jump: case.max_jump_s, plan, staged_at: None, decoy_matrix: None,
                             failed_first: if k == 1 && case.sink_seed % 5 == 2 { Some((case.sink_seed as usize / 5 + ui * 97) % 2500) } else { None } },
            );
            match r {
                Err(p) => return viol("panic", &p.site, k, json!({"stage":"compile-user","message":p.msg,"user":ui})),
                Ok((Err(e), _, _)) => {
                    stats.inc("world_build_failed");
                    if !crate::harness::minimising() && !REJECT_PRINTED.swap(true, std::sync::atomic::Ordering::SeqCst) {
                        eprintln!("roundtrip: generated user input rejected: {}", e);
                    }
                    return None;
                }
                Ok((Ok(b), reads, _)) => {
                    stats.add("clock.reads", reads);
                    users.push(b);
                }
            }
        }
        compiled.push((sys_bytes, users));
    }
    stats.inc("compiles.pairs");
    // byte identity of the two compiles
    {
        let (a, b) = (&compiled[0], &compiled[1]);
        let cmp = |x: &Vec<u8>, y: &Vec<u8>, what: &str| -> Option<Violation> {
            if x != y {
                let off = x.iter().zip(y.iter()).position(|(p, q)| p != q).unwrap_or(x.len().min(y.len()));
                let sec = crate::dicfmt::parse(x).ok().map(|p| {
                    let mut name = "header";
                    for (n, o) in &p.sections {
                        if off >= *o {
                            name = n;
                        }
                    }
                    name
                });
                return viol("two-compiles-differ", sec.unwrap_or("?"), 1, json!({"what": what, "first_difference_at": off, "len_a": x.len(), "len_b": y.len()}));
            }
            None
        };
        if let Some(v) = cmp(&a.0, &b.0, "system") {
            return Some(v);
        }
        for ui in 0..a.1.len() {
            if let Some(v) = cmp(&a.1[ui], &b.1[ui], &format!("user{}", ui)) {
                return Some(v);
            }
        }
    }
    let (sys_bytes, user_bytes) = compiled.remove(0);
    digest = fnv_mix(digest, fnv1a(&sys_bytes));

    // header round trip
    match DictionaryLoader::read_system_dictionary(&sys_bytes) {
        Err(e) => return viol("field-mismatch", "header", 2, json!({"error": format!("{}", e)})),
        Ok(d) => {
            if d.header.create_time != case.compile_time {
                return viol("field-mismatch", "header.create_time", 2, json!({"got": d.header.create_time, "expected": case.compile_time}));
            }
            if d.header.description != case.description {
                return viol("field-mismatch", "header.description", 2, json!({"got": crate::proj::trunc(&d.header.description), "expected": crate::proj::trunc(&case.description)}));
            }
        }
    }

    // ---- load under different placements ------------------------------------------------
    let dir = work.join("rtres");
    if !dir.join("char.def").exists() {
        let _ = std::fs::create_dir_all(&dir);
        let _ = std::fs::write(dir.join("char.def"), gen_char_def(&mut Rng::new(7)));
    }
    let cfg_json = json!({
        "characterDefinitionFile": "char.def",
        "oovProviderPlugin": [{"class":"com.worksap.nlp.sudachi.SimpleOovPlugin",
            "oovPOS": ["補助記号","一般","*","*","*","*"], "userPOS":"allow", "leftId":0, "rightId":0, "cost":30000}]
    });
    let cfg = ConfigBuilder::from_bytes(&serde_json::to_vec(&cfg_json).unwrap()).unwrap().resource_path(&dir).build();
    let mut first: Option<(Vec<Vec<EntryObs>>, Vec<i16>, Vec<String>)> = None;
    for (pi, pl) in case.placements.iter().enumerate() {
        let mut carved: Vec<(*mut u64, usize)> = vec![];
        let mut files: Vec<std::path::PathBuf> = vec![];
        let mut mk = |bytes: &Vec<u8>, idx: usize| -> Storage {
            match pl.storage.as_str() {
                "borrowed" => {
                    let (p, w, s) = carve(bytes, (pl.align + idx) % 8);
                    carved.push((p, w));
                    Storage::Borrowed(s)
                }
                "file" => {
                    let path = work.join(format!("rt-{}-{}.dic", pi, idx));
                    std::fs::write(&path, bytes).expect("write dic");
                    let f = std::fs::File::open(&path).expect("open dic");
                    let m = unsafe { memmap2::Mmap::map(&f) }.expect("mmap");
                    files.push(path);
                    Storage::File(m)
                }
                _ => Storage::Owned(bytes.clone()),
            }
        };
        stats.inc(&format!("placement.{}", pl.storage));
        if pl.storage == "borrowed" {
            stats.inc(&format!("placement.align.{}", pl.align));
        }
        let sys_st = mk(&sys_bytes, 0);
        let user_st: Vec<Storage> = user_bytes.iter().enumerate().map(|(i, b)| mk(b, i + 1)).collect();
        let loaded = catch(|| {
            let mut data = SudachiDicData::new(sys_st);
            for u in user_st {
                data.add_user(u);
            }
            JapaneseDictionary::from_cfg_storage(&cfg, data)
        });
        let result: Result<(Vec<Vec<EntryObs>>, Vec<i16>, Vec<String>), Violation> = (|| {
            let dict = match loaded {
                Err(p) => return Err(viol("panic", &p.site, 3, json!({"stage":"load","message":p.msg,"placement":pl})).unwrap()),
                Ok(Err(e)) => return Err(viol("field-mismatch", "load", 3, json!({"error": format!("{}", e), "placement": pl})).unwrap()),
                Ok(Ok(d)) => Arc::new(d),
            };
            let d2 = dict.clone();
            let nsys = rec.system.entries.len();
            let users_n: Vec<usize> = rec.users.iter().map(|u| u.entries.len()).collect();
            let texts = case.texts.clone();
            let r = catch(move || -> Result<(Vec<Vec<EntryObs>>, Vec<i16>, Vec<String>), String> {
                let mut all = vec![observe(&d2, 0, nsys)?];
                for (ui, n) in users_n.iter().enumerate() {
                    all.push(observe(&d2, (ui + 1) as u8, *n)?);
                }
                let m = d2.grammar().conn_matrix();
                let mut cells = Vec::with_capacity(m.num_left() * m.num_right());
                for l in 0..m.num_left() {
                    for r in 0..m.num_right() {
                        cells.push(m.cost(l as u16, r as u16));
                    }
                }
                let snap = snapshot(&d2, &texts);
                Ok((all, cells, snap))
            });
            drop(dict);
            match r {
                Err(p) => Err(viol("panic", &p.site, 3, json!({"stage":"read-entries","message":p.msg,"placement":pl})).unwrap()),
                Ok(Err(e)) => Err(viol("field-mismatch", "read", 3, json!({"error": e, "placement": pl})).unwrap()),
                Ok(Ok(x)) => Ok(x),
            }
        })();
        for (p, w) in carved {
            unsafe { free_carved(p, w) };
        }
        for f in files {
            let _ = std::fs::remove_file(f);
        }
        let (all, cells, snap) = match result {
            Ok(x) => x,
            Err(v) => return Some(v),
        };
        if pi == 0 {
            // against the records
            let m = &rec.matrix;
            if cells.len() != m.num_left * m.num_right {
                return viol("matrix-mismatch", "shape", 3, json!({"cells": cells.len(), "expected": m.num_left * m.num_right}));
            }
            for l in 0..m.num_left {
                for r in 0..m.num_right {
                    if cells[l * m.num_right + r] != m.cost(l, r) {
                        return viol("matrix-mismatch", "cell", 3, json!({"left": l, "right": r, "got": cells[l * m.num_right + r], "expected": m.cost(l, r), "shape": [m.num_left, m.num_right]}));
                    }
                }
            }
            stats.add("checked.matrix_cells", cells.len() as u64);
            if let Some((i, field, got, exp)) = check_entries(&rec.system, &rec.system, &all[0], 0) {
                return viol("field-mismatch", &field, 3, json!({"dictionary": "system", "entry": i, "surface": crate::proj::trunc(&rec.system.entries[i].surface), "got": got, "expected": exp}));
            }
            stats.add("checked.entries", all[0].len() as u64);
            for (ui, u) in rec.users.iter().enumerate() {
                if let Some((i, field, got, exp)) = check_entries(u, &rec.system, &all[ui + 1], (ui + 1) as u8) {
                    return viol("field-mismatch", &field, 3, json!({"dictionary": format!("user{}", ui), "entry": i, "surface": crate::proj::trunc(&u.entries[i].surface), "got": got, "expected": exp}));
                }
                stats.add("checked.entries", all[ui + 1].len() as u64);
            }
            digest = fnv_mix(digest, fnv1a(snap.join("\n").as_bytes()));
            first = Some((all, cells, snap));
        } else if let Some((fall, fcells, fsnap)) = &first {
            if &cells != fcells {
                return viol("alignment-dependent", "matrix", 4, json!({"placement": pl, "vs": case.placements[0]}));
            }
            for (d, (a, b)) in all.iter().zip(fall.iter()).enumerate() {
                if let Some(i) = a.iter().zip(b.iter()).position(|(x, y)| x != y) {
                    return viol("alignment-dependent", "entry", 4, json!({"dictionary": d, "entry": i, "placement": pl, "vs": case.placements[0],
                        "got": crate::proj::trunc(&format!("{:?}", a[i])), "first": crate::proj::trunc(&format!("{:?}", b[i]))}));
                }
            }
            if &snap != fsnap {
                return viol("alignment-dependent", "tokenization", 4, json!({"placement": pl, "vs": case.placements[0]}));
            }
            stats.inc("placements.compared");
        }
    }
    stats.run_digest = digest;
    stats.sigs.insert(fnv_mix(digest, fnv1a(serde_json::to_string(&case.placements).unwrap().as_bytes())));
    None
}
