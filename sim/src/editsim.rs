//! EditSim (C08, second clause): the offset map of `InputBuffer` under histories of edit batches,
//! decided as op-by-op refinement of a reference model, including failing batches (rollback),
//! overflowing batches (rejected in commit) and reuse of the same buffer object for several texts.
//!
//! OffsetSim (C08, first clause): code-point offsets of morphemes equal the code points before
//! their byte offsets, on tokenisations through full plugin stacks with a recycled tokenizer/list.

use crate::harness::{catch, Engine, Stats, Violation};
use crate::proj::{char_offsets_ok, project};
use crate::rng::{fnv1a, fnv_mix, Rng};
use crate::world::{gen_text, gen_world, WorldGenOpts, WorldSpec};
use crate::worldcache::get_world;
use serde::{Deserialize, Serialize};
use serde_json::{json, Value};
use std::path::Path;
use sudachi::analysis::mlist::MorphemeList;
use sudachi::analysis::stateful_tokenizer::StatefulTokenizer;
use sudachi::analysis::stateless_tokenizer::DictionaryAccess;
use sudachi::dic::subset::InfoSubset;
use sudachi::error::SudachiError;
use sudachi::input_text::{InputBuffer, InputTextIndex};

#[derive(Clone, Debug, Serialize, Deserialize, PartialEq)]
pub struct Edit {
    /// byte range in the *current* text (on char boundaries, non-empty)
    pub start: usize,
    pub end: usize,
    pub with: String,
    /// "ref" | "own" | "char" | "char_iter"
    pub api: String,
}

#[derive(Clone, Debug, Serialize, Deserialize, PartialEq)]
#[serde(tag = "kind", rename_all = "snake_case")]
pub enum Batch {
    Apply { edits: Vec<Edit> },
    /// pushes the edits, then the closure returns Err: documented rollback path, model: no-op
    Failing { edits: Vec<Edit> },
    /// expands the text past 65,535 bytes: rejected in commit, model: no-op
    Overflow { at: usize },
    /// many small expansions over a long text: the 65,535 limit is crossed in the middle of the edit list,
    /// while the half-built buffer is still short; must be rejected as a whole, model: no-op
    OverflowMany { every: usize, with: String },
}

#[derive(Clone, Debug, Serialize, Deserialize)]
pub struct Round {
    pub text: String,
    pub batches: Vec<Batch>,
}

#[derive(Clone, Debug, Serialize, Deserialize)]
pub struct EditCase {
    /// the same InputBuffer object processes the rounds one after another (reset in between)
    pub rounds: Vec<Round>,
}

pub struct EditSim;

const ALPHA: [&str; 16] = ["a", "b", "é", "ß", "あ", "ア", "漢", "ｶ", "ﾞ", "𠮟", "😀", "\u{3099}", "Ａ", "1", " ", "ー"];

fn gen_str(rng: &mut Rng, min: usize, max: usize) -> String {
    let n = min + rng.below(max - min + 1);
    let mut s = String::new();
    for _ in 0..n {
        s.push_str(ALPHA[rng.below(ALPHA.len())]);
    }
    s
}

#[derive(Clone, Debug)]
struct Cell {
    ch: char,
    orig: Option<usize>,
}

fn model_text(cells: &[Cell]) -> String {
    cells.iter().map(|c| c.ch).collect()
}

fn boundaries(s: &str) -> Vec<usize> {
    let mut v: Vec<usize> = s.char_indices().map(|(i, _)| i).collect();
    v.push(s.len());
    v
}

fn gen_edits(rng: &mut Rng, cur: &str) -> Vec<Edit> {
    let b = boundaries(cur);
    let nchars = b.len() - 1;
    if nchars == 0 {
        return vec![];
    }
    let mut edits = vec![];
    let mut pos = 0usize; // index into b
    let target = 1 + rng.below(4);
    while pos < nchars && edits.len() < target {
        // skip some chars (0 => adjacent to the previous edit / start of text)
        let skip = match rng.below(4) {
            0 => 0,
            1 => 1,
            _ => rng.below(nchars - pos + 1),
        };
        pos += skip;
        if pos >= nchars {
            break;
        }
        let len = 1 + rng.below(3.min(nchars - pos));
        let (s, e) = (b[pos], b[pos + len]);
        let api = ["ref", "own", "char", "char_iter"][rng.below(4)].to_string();
        let with = match api.as_str() {
            "char" => ALPHA[rng.below(ALPHA.len())].chars().next().unwrap().to_string(),
            "char_iter" => gen_str(rng, 1, 4),
            _ => match rng.below(6) {
                0 => String::new(),
                1 => cur[s..e].to_string(),
                2 => gen_str(rng, 1, 1),
                _ => gen_str(rng, 1, 5),
            },
        };
        edits.push(Edit { start: s, end: e, with, api });
        pos += len;
    }
    // bias: make the last edit reach the end of the text sometimes
    if let Some(last) = edits.last_mut() {
        if rng.chance(1, 5) {
            last.end = cur.len();
        }
    }
    edits
}

fn apply_model(cells: &[Cell], edits: &[Edit]) -> Vec<Cell> {
    // byte offsets of cells
    let mut out = vec![];
    let mut byte = 0usize;
    let mut ei = 0usize;
    let mut i = 0usize;
    while i < cells.len() {
        if ei < edits.len() && byte == edits[ei].start {
            // consume the replaced cells
            let e = &edits[ei];
            let mut b2 = byte;
            while i < cells.len() && b2 < e.end {
                b2 += cells[i].ch.len_utf8();
                i += 1;
            }
            byte = b2;
            for ch in e.with.chars() {
                out.push(Cell { ch, orig: None });
            }
            ei += 1;
        } else {
            out.push(cells[i].clone());
            byte += cells[i].ch.len_utf8();
            i += 1;
        }
    }
    out
}

impl Engine for EditSim {
    type Case = EditCase;
    fn name(&self) -> &'static str {
        "editsim"
    }
    fn property(&self) -> &'static str {
        "C08"
    }
    fn chunk(&self) -> u64 {
        256
    }

    fn generate(&self, seed: u64, run: u64) -> EditCase {
        let mut rng = Rng::derive(seed, "editsim", run);
        let nrounds = 1 + rng.below(3);
        let mut rounds = vec![];
        let long_round = if rng.chance(1, 400) { Some(rng.below(nrounds)) } else { None };
        for ri in 0..nrounds {
            if long_round == Some(ri) {
                let unit = ["a", "あ", "㍿"][rng.below(3)];
                let n = 12_000 + rng.below(4_000);
                let text: String = unit.repeat(n / unit.len().max(1) + 1);
                let with = ["0123456789", "株式会社", "xxxxxxxxxxxxxxxxxxxxxxxxxxxxxxxx"][rng.below(3)].to_string();
                let mut batches = vec![Batch::OverflowMany { every: 1 + rng.below(2), with }];
                if rng.chance(1, 2) {
                    batches.push(Batch::Apply { edits: vec![Edit { start: 0, end: unit.len(), with: "Z".into(), api: "ref".into() }] });
                }
                rounds.push(Round { text, batches });
                continue;
            }
            let text = gen_str(&mut rng, 1, 12);
            let mut cells: Vec<Cell> = vec![];
            {
                let mut o = 0;
                for ch in text.chars() {
                    cells.push(Cell { ch, orig: Some(o) });
                    o += ch.len_utf8();
                }
            }
            let nb = 1 + rng.below(5);
            let mut batches = vec![];
            for _ in 0..nb {
                let cur = model_text(&cells);
                if cur.is_empty() {
                    break;
                }
                match rng.below(12) {
                    0 => batches.push(Batch::Failing { edits: gen_edits(&mut rng, &cur) }),
                    1 if rng.chance(1, 4) => {
                        let b = boundaries(&cur);
                        batches.push(Batch::Overflow { at: b[rng.below(b.len() - 1)] });
                    }
                    _ => {
                        let edits = gen_edits(&mut rng, &cur);
                        cells = apply_model(&cells, &edits);
                        batches.push(Batch::Apply { edits });
                    }
                }
            }
            rounds.push(Round { text, batches });
        }
        EditCase { rounds }
    }

    fn execute(&self, case: &EditCase, stats: &mut Stats, work: &Path) -> Option<Violation> {
        execute_edit(case, stats, work)
    }

    fn shrink(&self, case: &EditCase, _v: &Violation) -> Vec<EditCase> {
        let mut out = vec![];
        for r in 0..case.rounds.len() {
            if case.rounds.len() > 1 {
                let mut c = case.clone();
                c.rounds.remove(r);
                out.push(c);
            }
        }
        for r in 0..case.rounds.len() {
            // dropping a batch invalidates later ranges only if it was an Apply; try anyway: the
            // executor skips edits that no longer fit (counted, never a violation)
            for b in (0..case.rounds[r].batches.len()).rev() {
                let mut c = case.clone();
                c.rounds[r].batches.remove(b);
                out.push(c);
            }
            for b in 0..case.rounds[r].batches.len() {
                if let Batch::Apply { edits } | Batch::Failing { edits } = &case.rounds[r].batches[b] {
                    for e in (0..edits.len()).rev() {
                        let mut c = case.clone();
                        match &mut c.rounds[r].batches[b] {
                            Batch::Apply { edits } | Batch::Failing { edits } => {
                                edits.remove(e);
                            }
                            _ => {}
                        }
                        out.push(c);
                    }
                    for e in 0..edits.len() {
                        if edits[e].with.chars().count() > 1 {
                            let mut c = case.clone();
                            match &mut c.rounds[r].batches[b] {
                                Batch::Apply { edits } | Batch::Failing { edits } => {
                                    let first: String = edits[e].with.chars().take(1).collect();
                                    edits[e].with = first;
                                }
                                _ => {}
                            }
                            out.push(c);
                        }
                    }
                }
            }
            // shorten the text from the end
            let chars: Vec<char> = case.rounds[r].text.chars().collect();
            if chars.len() > 1 {
                let mut c = case.clone();
                c.rounds[r].text = chars[..chars.len() - 1].iter().collect();
                out.push(c);
            }
        }
        out
    }
}

fn viol(class: &str, site: &str, op_index: usize, detail: Value) -> Option<Violation> {
    Some(Violation { class: class.to_string(), site: site.to_string(), op_index, detail })
}

fn edits_fit(cur: &str, edits: &[Edit]) -> bool {
    let mut prev = 0;
    for e in edits {
        if e.start < prev || e.start >= e.end || e.end > cur.len() || !cur.is_char_boundary(e.start) || !cur.is_char_boundary(e.end) {
            return false;
        }
        if e.api == "char" && e.with.chars().count() != 1 {
            return false;
        }
        if e.api == "char_iter" && e.with.is_empty() {
            return false;
        }
        prev = e.end;
    }
    true
}

fn push_edits<'a>(ed: &mut sudachi::input_text::InputEditor<'a>, edits: &'a [Edit]) {
    for e in edits {
        match e.api.as_str() {
            "ref" => ed.replace_ref(e.start..e.end, e.with.as_str()),
            "own" => ed.replace_own(e.start..e.end, e.with.clone()),
            "char" => ed.replace_char(e.start..e.end, e.with.chars().next().unwrap()),
            _ => {
                let mut it = e.with.chars();
                let first = it.next().unwrap();
                ed.replace_char_iter(e.start..e.end, first, it)
            }
        }
    }
}

thread_local! {
    static GRAMMAR_WORLD: std::cell::RefCell<Option<std::rc::Rc<crate::dictfac::BuiltWorld>>> = std::cell::RefCell::new(None);
}

fn grammar_world(work: &Path) -> Option<std::rc::Rc<crate::dictfac::BuiltWorld>> {
    if let Some(w) = GRAMMAR_WORLD.with(|g| g.borrow().clone()) {
        return Some(w);
    }
    let (spec, _) = gen_world(&mut Rng::new(11), &WorldGenOpts { max_users: 0, max_rows: 6, full_plugins: false });
    let w = get_world(&spec, work).ok()?;
    GRAMMAR_WORLD.with(|g| *g.borrow_mut() = Some(w.clone()));
    Some(w)
}

pub fn execute_edit(case: &EditCase, stats: &mut Stats, work: &Path) -> Option<Violation> {
    let world = match grammar_world(work) {
        Some(w) => w,
        None => {
            stats.inc("world_build_failed");
            return None;
        }
    };
    let dict = world.dict.clone();
    let grammar = dict.grammar();
    let mut buf = InputBuffer::new();
    let mut digest = fnv1a(b"editsim");
    let mut op = 0usize;
    let mut nontrivial = false;
    for (ri, round) in case.rounds.iter().enumerate() {
        let r = catch(|| {
            buf.reset().push_str(&round.text);
            buf.start_build()
        });
        match r {
            Err(p) => return viol("panic", &p.site, op, json!({"stage":"start_build","message":p.msg})),
            Ok(Err(e)) => return viol("panic", "start_build-error", op, json!({"error": format!("{}", e)})),
            Ok(Ok(())) => {}
        }
        let mut cells: Vec<Cell> = vec![];
        {
            let mut o = 0;
            for ch in round.text.chars() {
                cells.push(Cell { ch, orig: Some(o) });
                o += ch.len_utf8();
            }
        }
        let mut applied = 0;
        for b in &round.batches {
            op += 1;
            let cur = model_text(&cells);
            match b {
                Batch::Apply { edits } => {
                    if !edits_fit(&cur, edits) {
                        stats.inc("skipped.batch_does_not_fit");
                        continue;
                    }
                    let r = catch(|| {
                        buf.with_editor(|_b, mut ed| {
                            push_edits(&mut ed, edits);
                            Ok(ed)
                        })
                    });
                    match r {
                        Err(p) => return viol("panic", &p.site, op, json!({"stage":"batch","message":p.msg})),
                        Ok(Err(e)) => return viol("failed-batch", "apply-returned-error", op, json!({"error": format!("{}", e)})),
                        Ok(Ok(())) => {}
                    }
                    cells = apply_model(&cells, edits);
                    applied += 1;
                    stats.inc("batch.applied");
                    stats.add("edits", edits.len() as u64);
                }
                Batch::Failing { edits } => {
                    if !edits_fit(&cur, edits) {
                        stats.inc("skipped.batch_does_not_fit");
                        continue;
                    }
                    let r = catch(|| {
                        buf.with_editor(|_b, mut ed| {
                            push_edits(&mut ed, edits);
                            if edits.len() > usize::MAX - 1 {
                                return Ok(ed);
                            }
                            Err(SudachiError::InvalidPartOfSpeech("injected failure inside an edit batch".into()))
                        })
                    });
                    match r {
                        Err(p) => return viol("panic", &p.site, op, json!({"stage":"failing-batch","message":p.msg})),
                        Ok(Ok(())) => return viol("failed-batch", "error-swallowed", op, json!({})),
                        Ok(Err(_)) => {}
                    }
                    stats.inc("batch.failed_injected");
                }
                Batch::OverflowMany { every, with } => {
                    let b = boundaries(&cur);
                    let every = (*every).max(1);
                    let r = catch(|| {
                        buf.with_editor(|_b, mut ed| {
                            let mut i = 0;
                            while i + 1 < b.len() {
                                ed.replace_ref(b[i]..b[i + 1], with.as_str());
                                i += every;
                            }
                            Ok(ed)
                        })
                    });
                    let mut grown = cur.len();
                    {
                        let mut i = 0;
                        while i + 1 < b.len() {
                            grown = grown + with.len() - (b[i + 1] - b[i]);
                            i += every;
                        }
                    }
                    match r {
                        Err(p) => return viol("panic", &p.site, op, json!({"stage":"overflow-many-batch","message":p.msg})),
                        Ok(Ok(())) => {
                            if grown > 65_535 {
                                return viol("failed-batch", "overflow-accepted", op, json!({"projected_bytes": grown, "current_bytes": buf.current().len()}));
                            }
                            // small enough to be legal: the model applies it as well
                            let edits: Vec<Edit> = (0..b.len() - 1).step_by(every).map(|i| Edit { start: b[i], end: b[i + 1], with: with.clone(), api: "ref".into() }).collect();
                            cells = apply_model(&cells, &edits);
                        }
                        Ok(Err(e)) => {
                            if grown <= 65_535 {
                                return viol("failed-batch", "apply-returned-error", op, json!({"error": format!("{}", e), "projected_bytes": grown}));
                            }
                            stats.inc("batch.overflow_many_rejected");
                        }
                    }
                    stats.inc("batch.overflow_many");
                }
                Batch::Overflow { at } => {
                    if *at >= cur.len() || !cur.is_char_boundary(*at) {
                        stats.inc("skipped.batch_does_not_fit");
                        continue;
                    }
                    let end = *at + cur[*at..].chars().next().unwrap().len_utf8();
                    let big = "x".repeat(66_000);
                    let r = catch(|| {
                        buf.with_editor(|_b, mut ed| {
                            ed.replace_own(*at..end, big.clone());
                            Ok(ed)
                        })
                    });
                    match r {
                        Err(p) => return viol("panic", &p.site, op, json!({"stage":"overflow-batch","message":p.msg})),
                        Ok(Ok(())) => return viol("failed-batch", "overflow-accepted", op, json!({})),
                        Ok(Err(_)) => {}
                    }
                    stats.inc("batch.overflow_rejected");
                }
            }
            // after every batch the visible text must equal the model's
            let expect = model_text(&cells);
            let got = match catch(|| buf.current().to_string()) {
                Ok(s) => s,
                Err(p) => return viol("panic", &p.site, op, json!({"stage":"current","message":p.msg})),
            };
            if got != expect {
                let class = match b {
                    Batch::Apply { .. } => "text-differs-from-model",
                    _ => "failed-batch-had-effect",
                };
                return viol(class, "current", op, json!({"round": ri, "got": crate::proj::trunc(&got), "model": crate::proj::trunc(&expect)}));
            }
        }
        let text = model_text(&cells);
        if text.is_empty() {
            stats.inc("skipped.text_became_empty");
            continue; // excluded by the property ("that leave the text non-empty")
        }
        let r = catch(|| buf.build(grammar));
        match r {
            Err(p) => return viol("panic", &p.site, op, json!({"stage":"build","message":p.msg})),
            Ok(Err(e)) => return viol("panic", "build-error", op, json!({"error": format!("{}", e)})),
            Ok(Ok(())) => {}
        }
        op += 1;
        if applied > 0 {
            nontrivial = true;
        }
        // ---- queries over all character boundaries ----
        let orig = &round.text;
        // a quarter of the rounds put the questions to a copy of the finished buffer (copies are what result
        // lists keep): a copy must answer exactly like the buffer it was taken from
        let copy = if fnv1a(text.as_bytes()) % 4 == 0 {
            stats.inc("reach.queried_a_copy");
            match catch(|| buf.clone()) {
                Ok(c) => Some(c),
                Err(p) => return viol("panic", &p.site, op, json!({"stage":"clone","message":p.msg})),
            }
        } else {
            None
        };
        let qb = copy.as_ref().unwrap_or(&buf);
        let q = catch(|| -> Result<u64, (String, String, Value)> {
            let cur = qb.current().to_string();
            let bnd = boundaries(&cur);
            let mut h = fnv1a(cur.as_bytes());
            let mut prev = 0usize;
            for (ci, &b) in bnd.iter().enumerate() {
                let o = qb.get_original_index(b);
                h = fnv_mix(h, o as u64);
                if o < prev {
                    return Err(("not-monotone".into(), "m2o".into(), json!({"at": b, "maps_to": o, "previous": prev})));
                }
                prev = o;
                if o > orig.len() || !orig.is_char_boundary(o) {
                    return Err(("boundary-to-non-boundary".into(), "m2o".into(), json!({"at": b, "maps_to": o})));
                }
                let ob = qb.to_orig_byte_idx(ci);
                if ob != o {
                    return Err(("char-offset-mismatch".into(), "to_orig_byte_idx".into(), json!({"char": ci, "got": ob, "expected": o})));
                }
                let oc = qb.to_orig_char_idx(ci);
                let expect_c = orig[..o].chars().count();
                if oc != expect_c {
                    return Err(("char-offset-mismatch".into(), "to_orig_char_idx".into(), json!({"char": ci, "got": oc, "expected": expect_c, "orig_byte": o})));
                }
                if b < cur.len() && qb.ch_idx(b) != ci {
                    return Err(("char-offset-mismatch".into(), "ch_idx".into(), json!({"byte": b, "got": qb.ch_idx(b), "expected": ci})));
                }
            }
            if qb.get_original_index(0) != 0 {
                return Err(("start-not-anchored".into(), "m2o".into(), json!({"maps_to": qb.get_original_index(0)})));
            }
            if qb.get_original_index(cur.len()) != orig.len() {
                return Err(("end-not-anchored".into(), "m2o".into(), json!({"maps_to": qb.get_original_index(cur.len()), "expected": orig.len()})));
            }
            // ranges: slices of the original are well formed and consistent with the map
            for i in 0..bnd.len() {
                for j in i..bnd.len().min(i + 4) {
                    let rg = qb.to_orig(bnd[i]..bnd[j]);
                    if rg.start > rg.end {
                        return Err(("not-monotone".into(), "to_orig".into(), json!({"range": [bnd[i], bnd[j]], "maps_to": [rg.start, rg.end]})));
                    }
                    let s = qb.orig_slice(bnd[i]..bnd[j]);
                    if s != &orig[rg.clone()] {
                        return Err(("text-differs-from-model".into(), "orig_slice".into(), json!({"range": [bnd[i], bnd[j]]})));
                    }
                }
            }
            if qb.original() != orig {
                return Err(("text-differs-from-model".into(), "original".into(), json!({})));
            }
            Ok(h)
        });
        match q {
            Err(p) => return viol("panic", &p.site, op, json!({"stage":"queries","message":p.msg,"round":ri})),
            Ok(Err((class, site, detail))) => {
                let mut d = detail;
                d["round"] = json!(ri);
                d["text"] = json!(crate::proj::trunc(&text));
                d["original"] = json!(crate::proj::trunc(orig));
                return viol(&class, &site, op, d);
            }
            Ok(Ok(h)) => digest = fnv_mix(digest, h),
        }
        // each untouched character maps to itself (the forced start anchor wins at position 0)
        let mut byte = 0usize;
        for (k, c) in cells.iter().enumerate() {
            if let Some(o) = c.orig {
                if !(k == 0 && o != 0) {
                    let got = match catch(|| buf.get_original_index(byte)) {
                        Ok(g) => g,
                        Err(p) => return viol("panic", &p.site, op, json!({"stage":"untouched","message":p.msg})),
                    };
                    if got != o {
                        return viol("untouched-char-moved", "m2o", op, json!({"round": ri, "char": c.ch.to_string(), "at": byte, "maps_to": got, "own_offset": o,
                            "text": crate::proj::trunc(&text), "original": crate::proj::trunc(orig)}));
                    }
                }
            }
            byte += c.ch.len_utf8();
        }
        stats.inc("rounds.checked");
        if ri > 0 {
            stats.inc("reach.buffer_reused");
        }
    }
    stats.run_digest = digest;
    if nontrivial {
        stats.sigs.insert(fnv1a(serde_json::to_string(&case.rounds).unwrap().as_bytes()));
    }
    None
}

// ------------------------------------------------------------------------------------------
// OffsetSim: first clause of C08 on real tokenisations with a recycled tokenizer and list

#[derive(Clone, Debug, Serialize, Deserialize)]
pub struct OffsetCase {
    pub world: WorldSpec,
    /// (mode, text): analysed one after another with ONE tokenizer and ONE result list
    pub texts: Vec<(String, String)>,
}

pub struct OffsetSim;

impl Engine for OffsetSim {
    type Case = OffsetCase;
    fn name(&self) -> &'static str {
        "offsetsim"
    }
    fn property(&self) -> &'static str {
        "C08"
    }
    fn chunk(&self) -> u64 {
        32
    }
    fn generate(&self, seed: u64, run: u64) -> OffsetCase {
        let mut wr = Rng::derive(seed, "offsetsim/world", run / self.chunk());
        let full = wr.chance(1, 2);
        let (world, _) = gen_world(&mut wr, &WorldGenOpts { max_users: 1, max_rows: 40, full_plugins: full });
        let mut rng = Rng::derive(seed, "offsetsim/texts", run);
        let n = 2 + rng.below(6);
        let modes = ["A", "B", "C"];
        let mut texts: Vec<(String, String)> = (0..n).map(|_| (modes[rng.below(3)].to_string(), gen_text(&mut rng, &world.keys))).collect();
        if rng.chance(1, 60) {
            // long texts whose normalised form grows towards / past the 65,535 byte limit
            let t = match rng.below(3) {
                0 => crate::world::expanding_text(&mut rng),
                1 => "㍿".repeat(4000 + rng.below(12_000)),
                _ => format!("{}{}", gen_text(&mut rng, &world.keys), "Ａ１ｶﾞ".repeat(2000 + rng.below(2000))),
            };
            let at = rng.below(texts.len() + 1);
            texts.insert(at, ("C".to_string(), t));
        }
        // dictionary lookups into the same recycled list: `MorphemeList::lookup(query)` builds morphemes whose byte and
        // code-point ranges must agree too; queries are keys, width variants of keys (full-width ASCII, half-width
        // kana) and keys with a tail. Mode "L". Own PRNG stream so that the analysed texts stay what they were.
        let mut lr = Rng::derive(seed, "offsetsim/lookup", run);
        if lr.chance(1, 3) && !world.keys.is_empty() {
            for _ in 0..1 + lr.below(3) {
                let k = lr.pick(&world.keys).clone();
                let q = match lr.below(5) {
                    0 => k,
                    1 => k.chars().map(|c| if ('!'..='~').contains(&c) { char::from_u32(c as u32 + 0xFEE0).unwrap_or(c) } else { c }).collect(),
                    2 => k.chars().map(|c| match c { 'ア' => 'ｱ', 'イ' => 'ｲ', 'ウ' => 'ｳ', 'カ' => 'ｶ', 'ト' => 'ﾄ', 'ー' => 'ｰ', x => x }).collect(),
                    3 => format!("{}{}", k, gen_text(&mut lr, &world.keys)),
                    _ => gen_text(&mut lr, &world.keys),
                };
                let at = lr.below(texts.len() + 1);
                texts.insert(at, ("L".to_string(), q));
            }
        }
        OffsetCase { world, texts }
    }
    fn execute(&self, case: &OffsetCase, stats: &mut Stats, work: &Path) -> Option<Violation> {
        let world = match get_world(&case.world, work) {
            Ok(w) => w,
            Err(_) => {
                stats.inc("world_build_failed");
                return None;
            }
        };
        let dict = world.dict.clone();
        let mut tok = StatefulTokenizer::create(dict.clone(), false, sudachi::analysis::Mode::C);
        let mut list = MorphemeList::empty(dict.clone());
        let mut digest = fnv1a(b"offsetsim");
        let mut checked = 0;
        for (i, (mode, text)) in case.texts.iter().enumerate() {
            if text.contains('\u{0}') {
                continue;
            }
            if mode == "L" {
                let r = catch(|| {
                    list.clear();
                    list.lookup(text, InfoSubset::all())
                });
                match r {
                    Err(p) => return viol("panic", &p.site, i, json!({"stage":"lookup","message":p.msg,"query":crate::proj::trunc(text)})),
                    Ok(Err(_)) => continue,
                    Ok(Ok(_)) => {}
                }
                stats.inc("lookups");
                let p = match catch(|| project(&list, InfoSubset::empty())) {
                    Ok(p) => p,
                    Err(p) => return viol("panic", &p.site, i, json!({"stage":"read offsets of looked-up morphemes","message":p.msg,"query":crate::proj::trunc(text)})),
                };
                if !p.morphemes.is_empty() {
                    stats.inc("reach.lookup_found");
                }
                digest = fnv_mix(digest, fnv1a(serde_json::to_string(&p.morphemes.iter().map(|m| (m.begin_c, m.end_c)).collect::<Vec<_>>()).unwrap().as_bytes()));
                if let Some((mi, why)) = char_offsets_ok(&p) {
                    return viol("char-offset-mismatch", "looked-up-morpheme", i, json!({"morpheme": mi, "why": why, "query": crate::proj::trunc(text)}));
                }
                if p.text != *text {
                    return viol("text-differs-from-model", "lookup-list-text", i, json!({"query": crate::proj::trunc(text), "list_text": crate::proj::trunc(&p.text)}));
                }
                checked += p.morphemes.len();
                continue;
            }
            tok.set_mode(crate::toksim::mode_of(mode));
            let r = catch(|| {
                tok.reset().push_str(text);
                tok.do_tokenize()
            });
            match r {
                Err(p) => {
                    *stats.unclaimed.entry(format!("C03.panic@{}", p.site)).or_insert(0) += 1;
                    return None;
                }
                Ok(Err(_)) => continue,
                Ok(Ok(())) => {}
            }
            if list.collect_results(&mut tok).is_err() {
                continue;
            }
            let p = match catch(|| project(&list, InfoSubset::empty())) {
                Ok(p) => p,
                Err(p) => return viol("panic", &p.site, i, json!({"stage":"read offsets","message":p.msg,"text":crate::proj::trunc(text)})),
            };
            digest = fnv_mix(digest, fnv1a(serde_json::to_string(&p.morphemes.iter().map(|m| (m.begin_c, m.end_c)).collect::<Vec<_>>()).unwrap().as_bytes()));
            if let Some((mi, why)) = char_offsets_ok(&p) {
                return viol("char-offset-mismatch", "morpheme", i, json!({"morpheme": mi, "why": why, "text": crate::proj::trunc(text), "mode": mode}));
            }
            checked += p.morphemes.len();
            stats.inc("texts.checked");
            if p.text.len() != p.morphemes.iter().map(|m| m.surface.len()).sum::<usize>() {
                *stats.unclaimed.entry("C01.partition".into()).or_insert(0) += 1;
            }
        }
        stats.add("morphemes.checked", checked as u64);
        stats.run_digest = digest;
        if checked > 0 && case.texts.len() > 1 {
            stats.sigs.insert(fnv_mix(crate::worldcache::spec_hash(&case.world), fnv1a(serde_json::to_string(&case.texts).unwrap().as_bytes())));
        }
        None
    }
    fn shrink(&self, case: &OffsetCase, _v: &Violation) -> Vec<OffsetCase> {
        let mut out = vec![];
        for i in (0..case.texts.len()).rev() {
            let mut c = case.clone();
            c.texts.remove(i);
            out.push(c);
        }
        for i in 0..case.texts.len() {
            let chars: Vec<char> = case.texts[i].1.chars().collect();
            let k = chars.len();
            for (a, b) in [(0, k / 2), (k / 2, k), (0, k.saturating_sub(1)), (1.min(k), k)] {
                if a < b && b - a < k {
                    let mut c = case.clone();
                    c.texts[i].1 = chars[a..b].iter().collect();
                    out.push(c);
                }
            }
        }
        for u in 0..case.world.user_csv.len() {
            let mut c = case.clone();
            c.world.user_csv.remove(u);
            out.push(c);
        }
        for key in ["inputTextPlugin", "pathRewritePlugin", "connectionCostPlugin", "oovProviderPlugin"] {
            if let Some(arr) = case.world.config[key].as_array() {
                let min = if key == "oovProviderPlugin" { 1 } else { 0 };
                if arr.len() > min {
                    for j in 0..arr.len() {
                        let mut c = case.clone();
                        c.world.config[key].as_array_mut().unwrap().remove(j);
                        out.push(c);
                    }
                }
            }
        }
        out
    }
    fn sample(&self, case: &OffsetCase) -> Value {
        json!({"texts": case.texts, "plugins": case.world.config["inputTextPlugin"], "system_rows": case.world.system_csv.lines().count()})
    }
}
