//! Per-thread cache of built worlds keyed by the hash of the world spec.

use crate::dictfac::{build_world, BuiltWorld};
use crate::rng::fnv1a;
use crate::world::WorldSpec;
use std::cell::RefCell;
use std::path::Path;
use std::rc::Rc;

thread_local! {
    static SIBS: RefCell<Vec<(u64, Option<std::sync::Arc<sudachi::dic::dictionary::JapaneseDictionary>>)>> = RefCell::new(Vec::new());
    static CACHE: RefCell<Vec<(u64, Rc<BuiltWorld>)>> = RefCell::new(Vec::new());
}

pub fn spec_hash(spec: &WorldSpec) -> u64 {
    fnv1a(&serde_json::to_vec(spec).unwrap())
}

pub fn get_world(spec: &WorldSpec, work: &Path) -> Result<Rc<BuiltWorld>, String> {
    let h = spec_hash(spec);
    if let Some(w) = CACHE.with(|c| c.borrow().iter().find(|(k, _)| *k == h).map(|(_, w)| w.clone())) {
        return Ok(w);
    }
    let dir = work.join(format!("w{:016x}", h));
    let built = crate::harness::catch(|| build_world(spec, &dir));
    let built = match built {
        Ok(Ok(b)) => b,
        Ok(Err(e)) => return Err(e),
        Err(p) => return Err(format!("panic while building world at {}: {}", p.site, p.msg)),
    };
    let rc = Rc::new(built);
    CACHE.with(|c| {
        let mut c = c.borrow_mut();
        if c.len() >= 3 {
            let (_, old) = c.remove(0);
            let _ = std::fs::remove_dir_all(&old.dir);
        }
        c.push((h, rc.clone()));
    });
    Ok(rc)
}

/// A second dictionary over the same compiled lexicons, grammar and plugin configuration whose character definition
/// lacks every second code-point range (those characters fall back to DEFAULT). Used by TokSim for tokenizers that
/// share result lists with tokenizers of the main dictionary (`MorphemeList::collect_results` accepts a tokenizer
/// over any dictionary). None when that definition does not load with the world's unk.def / plugins.
pub fn get_sibling(spec: &WorldSpec, built: &BuiltWorld) -> Option<std::sync::Arc<sudachi::dic::dictionary::JapaneseDictionary>> {
    use sudachi::dic::storage::Storage;
    let h = spec_hash(spec);
    if let Some(x) = SIBS.with(|c| c.borrow().iter().find(|(k, _)| *k == h).map(|(_, w)| w.clone())) {
        return x;
    }
    let mut spec2 = spec.clone();
    let mut out = String::new();
    let mut i = h as usize;
    for l in spec.char_def.lines() {
        if l.starts_with("0x") {
            i += 1;
            if i % 2 == 0 && !l.contains("SPACE") {
                continue;
            }
        }
        out.push_str(l);
        out.push('\n');
    }
    spec2.char_def = out;
    let dir = built.dir.join("sib");
    let r = crate::harness::catch(|| -> Result<_, String> {
        crate::dictfac::write_resources(&spec2, &dir)?;
        let cfg = crate::dictfac::make_config(&spec2, &dir)?;
        crate::dictfac::load_dict(
            &cfg,
            Storage::Owned(built.sys_bytes.clone()),
            built.user_bytes.iter().map(|b| Storage::Owned(b.clone())).collect(),
        )
    });
    let sib = match r {
        Ok(Ok(d)) => Some(std::sync::Arc::new(d)),
        _ => None,
    };
    SIBS.with(|c| {
        let mut c = c.borrow_mut();
        if c.len() >= 3 {
            c.remove(0);
        }
        c.push((h, sib.clone()));
    });
    sib
}
