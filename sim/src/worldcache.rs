//! Per-thread cache of built worlds keyed by the hash of the world spec.

use crate::dictfac::{build_world, BuiltWorld};
use crate::rng::fnv1a;
use crate::world::WorldSpec;
use std::cell::RefCell;
use std::path::Path;
use std::rc::Rc;

thread_local! {
    static CACHE: RefCell<Vec<(u64, Rc<BuiltWorld>)>> = RefCell::new(Vec::new());
}

pub fn spec_hash(spec: &WorldSpec) -> u64 {
    fnv1a(&serde_json::to_vec(spec).unwrap())
}

pub fn get_world(spec: &WorldSpec, work: &Path) -> Result<Rc<BuiltWorld>, String> {
    let h = spec_hash(spec);
    if let Some(w) = CACHE.with(|c| c.borrow().iter().find(|(k, _)| *k == h).map(|(_, w)| w.clone())) {
        return Ok(w);
    }
    let dir = work.join(format!("w{:016x}", h));
    let built = crate::harness::catch(|| build_world(spec, &dir));
    let built = match built {
        Ok(Ok(b)) => b,
        Ok(Err(e)) => return Err(e),
        Err(p) => return Err(format!("panic while building world at {}: {}", p.site, p.msg)),
    };
    let rc = Rc::new(built);
    CACHE.with(|c| {
        let mut c = c.borrow_mut();
        if c.len() >= 3 {
            let (_, old) = c.remove(0);
            let _ = std::fs::remove_dir_all(&old.dir);
        }
        c.push((h, rc.clone()));
    });
    Ok(rc)
}
