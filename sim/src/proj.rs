//! Observable projection of a `MorphemeList` through the public accessors only.

use serde::{Deserialize, Serialize};
use sudachi::analysis::mlist::MorphemeList;
use sudachi::analysis::stateless_tokenizer::DictionaryAccess;
use sudachi::dic::subset::InfoSubset;

#[derive(Clone, Debug, PartialEq, Serialize, Deserialize)]
pub struct MorphProj {
    pub begin: usize,
    pub end: usize,
    pub begin_c: usize,
    pub end_c: usize,
    pub surface: String,
    pub word_id: u32,
    pub dic_id: i32,
    pub is_oov: bool,
    pub total_cost: i32,
    pub pos_id: Option<u16>,
    pub pos: Option<Vec<String>>,
    pub wi_surface: Option<String>,
    pub head_len: Option<usize>,
    pub norm: Option<String>,
    pub dict_form: Option<String>,
    pub reading: Option<String>,
    pub split_a: Option<Vec<u32>>,
    pub split_b: Option<Vec<u32>>,
    pub word_structure: Option<Vec<u32>>,
    pub synonyms: Option<Vec<u32>>,
}

#[derive(Clone, Debug, PartialEq, Serialize, Deserialize)]
pub struct ListProj {
    pub text: String,
    pub morphemes: Vec<MorphProj>,
}

/// Project `list`, reading only the fields in `fields` (the *requested* subset).
pub fn project<D: DictionaryAccess>(list: &MorphemeList<D>, fields: InfoSubset) -> ListProj {
    let mut ms = Vec::with_capacity(list.len());
    for m in list.iter() {
        let wi = m.get_word_info();
        let has = |f: InfoSubset| fields.contains(f);
        ms.push(MorphProj {
            begin: m.begin(),
            end: m.end(),
            begin_c: m.begin_c(),
            end_c: m.end_c(),
            surface: m.surface().to_string(),
            word_id: m.word_id().as_raw(),
            dic_id: m.dictionary_id(),
            is_oov: m.is_oov(),
            total_cost: m.total_cost(),
            pos_id: if has(InfoSubset::POS_ID) { Some(m.part_of_speech_id()) } else { None },
            pos: if has(InfoSubset::POS_ID) { Some(m.part_of_speech().to_vec()) } else { None },
            wi_surface: if has(InfoSubset::SURFACE) { Some(wi.surface().to_string()) } else { None },
            head_len: if has(InfoSubset::HEAD_WORD_LENGTH) { Some(wi.head_word_length()) } else { None },
            norm: if has(InfoSubset::NORMALIZED_FORM) { Some(m.normalized_form().to_string()) } else { None },
            dict_form: if has(InfoSubset::DIC_FORM_WORD_ID) { Some(m.dictionary_form().to_string()) } else { None },
            reading: if has(InfoSubset::READING_FORM) { Some(m.reading_form().to_string()) } else { None },
            split_a: if has(InfoSubset::SPLIT_A) { Some(wi.a_unit_split().iter().map(|w| w.as_raw()).collect()) } else { None },
            split_b: if has(InfoSubset::SPLIT_B) { Some(wi.b_unit_split().iter().map(|w| w.as_raw()).collect()) } else { None },
            word_structure: if has(InfoSubset::WORD_STRUCTURE) { Some(wi.word_structure().iter().map(|w| w.as_raw()).collect()) } else { None },
            synonyms: if has(InfoSubset::SYNONYM_GROUP_ID) { Some(m.synonym_group_ids().to_vec()) } else { None },
        });
    }
    ListProj {
        text: list.surface().to_string(),
        morphemes: ms,
    }
}

/// First difference between subject and reference as (morpheme index, field, subject, reference)
pub fn first_diff(subject: &ListProj, reference: &ListProj) -> Option<(usize, String, String, String)> {
    if subject.text != reference.text {
        return Some((0, "list.surface".into(), trunc(&subject.text), trunc(&reference.text)));
    }
    let n = subject.morphemes.len().min(reference.morphemes.len());
    for i in 0..n {
        let a = serde_json::to_value(&subject.morphemes[i]).unwrap();
        let b = serde_json::to_value(&reference.morphemes[i]).unwrap();
        if a != b {
            let ao = a.as_object().unwrap();
            let bo = b.as_object().unwrap();
            // report in declaration order
            for k in [
                "begin", "end", "begin_c", "end_c", "surface", "word_id", "dic_id", "is_oov", "total_cost", "pos_id", "pos",
                "wi_surface", "head_len", "norm", "dict_form", "reading", "split_a", "split_b", "word_structure", "synonyms",
            ] {
                if ao[k] != bo[k] {
                    return Some((i, k.to_string(), trunc(&ao[k].to_string()), trunc(&bo[k].to_string())));
                }
            }
        }
    }
    if subject.morphemes.len() != reference.morphemes.len() {
        return Some((
            n,
            "len".into(),
            subject.morphemes.len().to_string(),
            reference.morphemes.len().to_string(),
        ));
    }
    None
}

pub fn trunc(s: &str) -> String {
    if s.chars().count() > 80 {
        let t: String = s.chars().take(80).collect();
        format!("{}…(+{} chars)", t, s.chars().count() - 80)
    } else {
        s.to_string()
    }
}

/// Partition invariant (C01, monitored but not claimed here): begins at 0, contiguous, ends at len,
/// surfaces concatenate to the input.
pub fn partition_ok(p: &ListProj) -> bool {
    if p.morphemes.is_empty() {
        return true;
    }
    let mut pos = 0;
    let mut cat = String::new();
    for m in &p.morphemes {
        if m.begin != pos || m.end < m.begin {
            return false;
        }
        pos = m.end;
        cat.push_str(&m.surface);
    }
    pos == p.text.len() && cat == p.text
}

/// C08 first clause (used by the C08 check): code-point offsets equal code points before byte offsets
pub fn char_offsets_ok(p: &ListProj) -> Option<(usize, String)> {
    for (i, m) in p.morphemes.iter().enumerate() {
        if !p.text.is_char_boundary(m.begin) || !p.text.is_char_boundary(m.end) || m.begin > m.end {
            return Some((i, format!("byte range {}..{} not on char boundaries", m.begin, m.end)));
        }
        let bc = p.text[..m.begin].chars().count();
        let ec = p.text[..m.end].chars().count();
        if bc != m.begin_c || ec != m.end_c {
            return Some((
                i,
                format!(
                    "begin_c/end_c = {}/{} but code points before bytes {}/{} = {}/{}",
                    m.begin_c, m.end_c, m.begin, m.end, bc, ec
                ),
            ));
        }
        let by_chars: String = p.text.chars().skip(m.begin_c).take(m.end_c - m.begin_c).collect();
        if by_chars != m.surface {
            return Some((i, "slice by code points differs from surface".to_string()));
        }
    }
    None
}
