//! World generation: a *world* is everything a simulated run needs besides its operations —
//! connection matrix, system/user lexicons (as structured records *and* as the CSV text the
//! compiler reads), char.def / unk.def / rewrite.def and the plugin configuration.
//!
//! The textual form is rendered *from* the records, so oracles never depend on the
//! repository's own CSV parser.

use crate::rng::Rng;
use serde::{Deserialize, Serialize};
use serde_json::{json, Value};

pub type Pos = [String; 6];

#[derive(Clone, Debug, Serialize, Deserialize, PartialEq)]
pub enum RefStyle {
    /// plain number (system word id when used in a user dictionary)
    Num,
    /// `U<n>`: word of the user dictionary being compiled
    UserNum,
    /// `surface,pos1..pos6,reading` resolved by the compiler
    Inline,
}

#[derive(Clone, Debug, Serialize, Deserialize, PartialEq)]
pub struct WordRef {
    /// 0 = system dictionary, 1 = the user dictionary being compiled
    pub dic: u8,
    pub index: usize,
    pub style: RefStyle,
}

#[derive(Clone, Debug, Serialize, Deserialize)]
pub struct Entry {
    pub surface: String,
    pub left: i16,
    pub right: i16,
    pub cost: i16,
    pub headword: String,
    pub pos: Pos,
    pub reading: String,
    pub norm: String,
    pub dic_form: Option<WordRef>,
    pub split_type: String,
    pub split_a: Vec<WordRef>,
    pub split_b: Vec<WordRef>,
    pub word_structure: Vec<WordRef>,
    pub synonyms: Vec<u32>,
    /// write string fields with \u escapes
    #[serde(default)]
    pub escape: bool,
}

#[derive(Clone, Debug, Serialize, Deserialize)]
pub struct MatrixSpec {
    pub num_left: usize,
    pub num_right: usize,
    /// cost[l * num_right + r], l = right-id of the left word, r = left-id of the right word
    pub costs: Vec<i16>,
}

impl MatrixSpec {
    pub fn cost(&self, l: usize, r: usize) -> i16 {
        self.costs[l * self.num_right + r]
    }
    pub fn render(&self, rng: &mut Rng, fancy: bool) -> String {
        let mut s = String::new();
        if fancy && rng.chance(1, 3) {
            s.push_str("\n  \n");
        }
        s.push_str(&format!("{} {}\n", self.num_left, self.num_right));
        for l in 0..self.num_left {
            for r in 0..self.num_right {
                let c = self.cost(l, r);
                if fancy && c == 0 && rng.chance(1, 2) {
                    continue; // sparse: zero cells may be omitted
                }
                if fancy && rng.chance(1, 12) {
                    // the same cell listed twice: the later line is the one that counts
                    s.push_str(&format!("{} {} {}\n", l, r, c.wrapping_add(1 + rng.below(50) as i16)));
                }
                if fancy && rng.chance(1, 10) {
                    s.push_str(&format!("  {}\t{}   {}  \n", l, r, c));
                } else {
                    s.push_str(&format!("{} {} {}\n", l, r, c));
                }
                if fancy && rng.chance(1, 20) {
                    s.push('\n');
                }
            }
        }
        s
    }
}

#[derive(Clone, Debug, Serialize, Deserialize)]
pub struct LexSpec {
    pub entries: Vec<Entry>,
}

fn esc_all(s: &str) -> String {
    let mut o = String::new();
    for c in s.chars() {
        let v = c as u32;
        if c.is_ascii_alphanumeric() {
            o.push(c);
        } else if v > 0xffff {
            o.push_str(&format!("\\u{{{:x}}}", v));
        } else {
            o.push_str(&format!("\\u{:04x}", v));
        }
    }
    o
}

fn csv_field(s: &str) -> String {
    if s.contains(',') || s.contains('"') || s.contains('\n') || s.contains('\r') {
        format!("\"{}\"", s.replace('"', "\"\""))
    } else {
        s.to_string()
    }
}

impl LexSpec {
    fn render_ref(&self, r: &WordRef, sys: Option<&LexSpec>) -> String {
        match r.style {
            RefStyle::Num => format!("{}", r.index),
            RefStyle::UserNum => format!("U{}", r.index),
            RefStyle::Inline => {
                let tgt = if r.dic == 0 {
                    match sys {
                        Some(s) => &s.entries[r.index],
                        None => &self.entries[r.index],
                    }
                } else {
                    &self.entries[r.index]
                };
                format!(
                    "{},{},{}",
                    tgt.surface,
                    tgt.pos.join(","),
                    tgt.reading
                )
            }
        }
    }

    fn render_refs(&self, refs: &[WordRef], sys: Option<&LexSpec>) -> String {
        if refs.is_empty() {
            return "*".to_string();
        }
        refs.iter()
            .map(|r| self.render_ref(r, sys))
            .collect::<Vec<_>>()
            .join("/")
    }

    /// CSV text. `sys` is the system lexicon when `self` is a user lexicon.
    pub fn render(&self, sys: Option<&LexSpec>) -> String {
        let mut out = String::new();
        for e in &self.entries {
            let f = |s: &str| -> String {
                if e.escape {
                    esc_all(s)
                } else {
                    s.to_string()
                }
            };
            let mut cols: Vec<String> = Vec::with_capacity(19);
            cols.push(f(&e.surface));
            cols.push(e.left.to_string());
            cols.push(e.right.to_string());
            cols.push(e.cost.to_string());
            cols.push(f(&e.headword));
            for p in e.pos.iter() {
                cols.push(p.clone());
            }
            cols.push(f(&e.reading));
            cols.push(f(&e.norm));
            cols.push(match &e.dic_form {
                None => "*".to_string(),
                Some(r) => match r.style {
                    RefStyle::UserNum => format!("U{}", r.index),
                    _ => format!("{}", r.index),
                },
            });
            cols.push(e.split_type.clone());
            cols.push(self.render_refs(&e.split_a, sys));
            cols.push(self.render_refs(&e.split_b, sys));
            cols.push(self.render_refs(&e.word_structure, sys));
            cols.push(if e.synonyms.is_empty() {
                "*".to_string()
            } else {
                e.synonyms
                    .iter()
                    .map(|x| x.to_string())
                    .collect::<Vec<_>>()
                    .join("/")
            });
            let line: Vec<String> = cols.iter().map(|c| csv_field(c)).collect();
            out.push_str(&line.join(","));
            out.push('\n');
        }
        out
    }
}

#[derive(Clone, Debug, Serialize, Deserialize)]
pub struct WorldSpec {
    pub matrix: String,
    pub system_csv: String,
    pub user_csv: Vec<String>,
    pub char_def: String,
    pub unk_def: String,
    pub rewrite_def: String,
    /// sudachi.json content without dictionary paths
    pub config: Value,
    /// dictionary keys and extra characters, only a *hint* for text generation
    pub keys: Vec<String>,
    pub has_path_rewrite: bool,
    pub has_default_input: bool,
    /// a key whose B units have A units of their own, if the world has one
    #[serde(default)]
    pub two_level: Option<String>,
}

/// Structured side of a world (kept by engines that need a field oracle, e.g. RoundTripSim).
#[derive(Clone, Debug, Serialize, Deserialize)]
pub struct WorldRecords {
    pub matrix: MatrixSpec,
    pub system: LexSpec,
    pub users: Vec<LexSpec>,
}

pub const POS_NUM: [&str; 6] = ["名詞", "数詞", "*", "*", "*", "*"];
pub const POS_NOUN: [&str; 6] = ["名詞", "普通名詞", "一般", "*", "*", "*"];
pub const POS_SYM: [&str; 6] = ["補助記号", "一般", "*", "*", "*", "*"];

fn pos(p: [&str; 6]) -> Pos {
    [
        p[0].to_string(),
        p[1].to_string(),
        p[2].to_string(),
        p[3].to_string(),
        p[4].to_string(),
        p[5].to_string(),
    ]
}

const EXTRA_POS: [[&str; 6]; 8] = [
    ["助詞", "格助詞", "*", "*", "*", "*"],
    ["助詞", "接続助詞", "*", "*", "*", "*"],
    ["動詞", "非自立可能", "*", "*", "五段-カ行", "終止形-一般"],
    ["動詞", "非自立可能", "*", "*", "五段-カ行", "連用形-促音便"],
    ["名詞", "固有名詞", "地名", "一般", "*", "*"],
    ["名詞", "固有名詞", "人名", "一般", "*", "*"],
    ["空白", "*", "*", "*", "*", "*"],
    ["感動詞", "一般", "*", "*", "*", "*"],
];

/// characters from which dictionary keys are drawn (already in normalised form)
const KEY_CHARS: [&str; 34] = [
    "あ", "い", "う", "か", "き", "く", "に", "は", "ア", "イ", "ウ", "カ", "ー", "東", "京", "都", "府", "行",
    "大", "学", "生", "a", "b", "c", "x", "1", "2", "一", "二", "十", "。", "𠮟", "😀", "が",
];

/// characters that appear in texts in addition to key characters (un-normalised variants,
/// combining marks, expansions, brackets, prolonged sound marks, controls)
const TEXT_CHARS: [&str; 52] = [
    "…", "㈱", "Ⅲ", "[", "]", "【", "】", "~",
    "Ａ", "Ｂ", "ｘ", "１", "２", "ｱ", "ｲ", "ｶ", "ﾞ", "A", "B", "X", "〜", "～", "-", "ー", "(", ")", "（", "）", " ",
    "　", "\u{3099}", "\u{0301}", "\u{200d}", "\u{fe0f}", "㍿", "㌔", "ｶﾞ", "、", ".", ",", "3", "0", "百", "千",
    "万", "ー", "ヴ", "え", "\u{0}", "\t", "Ω", "я",
];

fn key_string(rng: &mut Rng) -> String {
    let n = match rng.below(10) {
        0..=2 => 1,
        3..=6 => 2,
        7..=8 => 3,
        _ => 4,
    };
    // bias towards staying in one script so that OOV class runs and joins happen
    let base = rng.below(KEY_CHARS.len());
    let mut s = String::new();
    for _ in 0..n {
        let idx = if rng.chance(2, 3) {
            let lo = base.saturating_sub(2);
            let hi = (base + 3).min(KEY_CHARS.len());
            lo + rng.below(hi - lo)
        } else {
            rng.below(KEY_CHARS.len())
        };
        s.push_str(KEY_CHARS[idx]);
    }
    s
}

fn katakana_of(s: &str) -> String {
    // a cheap "reading": hiragana -> katakana, everything else unchanged
    s.chars()
        .map(|c| {
            let v = c as u32;
            if (0x3041..=0x3096).contains(&v) {
                char::from_u32(v + 0x60).unwrap()
            } else {
                c
            }
        })
        .collect()
}

pub struct WorldGenOpts {
    /// allow non-square matrices (only engines that do not tokenize with them)
    pub max_users: usize,
    pub max_rows: usize,
    pub full_plugins: bool,
}

impl Default for WorldGenOpts {
    fn default() -> Self {
        WorldGenOpts {
            max_users: 2,
            max_rows: 60,
            full_plugins: false,
        }
    }
}

fn gen_entry(rng: &mut Rng, surface: String, n: usize, pos_pool: &[Pos]) -> Entry {
    let id = rng.below(n) as i16;
    let (left, right) = if rng.chance(3, 4) {
        (id, id)
    } else {
        (rng.below(n) as i16, rng.below(n) as i16)
    };
    let cost = match rng.below(20) {
        0 => -2000,
        1 => 32767,
        2 => -32767,
        3 => 0,
        _ => rng.range(500, 9000) as i16,
    };
    let headword = if rng.chance(1, 8) {
        format!("{}{}", surface, "ﾊ")
    } else {
        surface.clone()
    };
    let reading = match rng.below(4) {
        0 => headword.clone(),
        _ => katakana_of(&headword) + if rng.chance(1, 4) { "ッ" } else { "" },
    };
    let norm = if rng.chance(1, 4) {
        format!("{}{}", headword, "の")
    } else {
        headword.clone()
    };
    let p = rng.pick(pos_pool).clone();
    Entry {
        surface,
        left,
        right,
        cost,
        headword,
        pos: p,
        reading,
        norm,
        dic_form: None,
        split_type: "A".to_string(),
        split_a: vec![],
        split_b: vec![],
        word_structure: vec![],
        synonyms: if rng.chance(1, 5) {
            (0..1 + rng.below(3)).map(|_| rng.below(1000) as u32).collect()
        } else {
            vec![]
        },
        escape: false,
    }
}

/// find or create an entry for `piece`; returns its index
fn ensure_entry(
    rng: &mut Rng,
    lex: &mut LexSpec,
    piece: &str,
    n: usize,
    pos_pool: &[Pos],
    allow_hidden: bool,
) -> usize {
    // unique target: (surface, pos, reading) must identify exactly one entry for inline refs
    let found: Vec<usize> = lex
        .entries
        .iter()
        .enumerate()
        .filter(|(_, e)| e.surface == piece)
        .map(|(i, _)| i)
        .collect();
    if let Some(i) = found.first() {
        return *i;
    }
    let mut e = gen_entry(rng, piece.to_string(), n, pos_pool);
    e.headword = piece.to_string();
    e.norm = piece.to_string();
    e.reading = katakana_of(piece);
    if allow_hidden && rng.chance(1, 5) {
        e.left = -1; // not indexed, only reachable through references
        e.right = -1;
    }
    lex.entries.push(e);
    lex.entries.len() - 1
}

fn partition(rng: &mut Rng, chars: &[char]) -> Vec<String> {
    // split into 2..=min(3,len) non-empty pieces
    let len = chars.len();
    let parts = if len >= 3 && rng.chance(1, 2) { 3 } else { 2 };
    let mut cuts: Vec<usize> = (1..len).collect();
    rng.shuffle(&mut cuts);
    let mut cuts: Vec<usize> = cuts.into_iter().take(parts - 1).collect();
    cuts.sort();
    let mut out = vec![];
    let mut prev = 0;
    for c in cuts.into_iter().chain(std::iter::once(len)) {
        out.push(chars[prev..c].iter().collect::<String>());
        prev = c;
    }
    out
}

fn is_unique_target(lex: &LexSpec, idx: usize) -> bool {
    let t = &lex.entries[idx];
    lex.entries
        .iter()
        .filter(|e| e.surface == t.surface && e.pos == t.pos && e.reading == t.reading)
        .count()
        == 1
}

/// Generate a world that loads and tokenizes (valid by construction).
pub fn gen_world(rng: &mut Rng, opts: &WorldGenOpts) -> (WorldSpec, WorldRecords) {
    // ---- matrix (square: ids are shared between left and right) ----
    let n = 4 + rng.below(8); // 4..=11
    let mut costs = Vec::with_capacity(n * n);
    for _ in 0..n * n {
        let c = match rng.below(40) {
            0 => 32767,
            1 => -3000,
            2 => 0,
            3 => 20000,
            _ => rng.range(-800, 3000) as i16,
        };
        costs.push(c);
    }
    // keep BOS/EOS row/col sane so that most texts connect
    for i in 0..n {
        if costs[i] == 32767 {
            costs[i] = 100;
        }
        if costs[i * n] == 32767 {
            costs[i * n] = 100;
        }
    }
    let matrix = MatrixSpec {
        num_left: n,
        num_right: n,
        costs,
    };

    // ---- POS pool ----
    let mut pos_pool: Vec<Pos> = vec![pos(POS_NOUN), pos(POS_SYM)];
    for p in EXTRA_POS.iter() {
        if rng.chance(1, 2) {
            pos_pool.push(pos(*p));
        }
    }

    // ---- system lexicon ----
    let mut sys = LexSpec { entries: vec![] };
    // numerals first (JoinNumericPlugin needs 名詞,数詞 to exist)
    let num_id = rng.below(n) as i16;
    for d in ["0", "1", "2", "3", "一", "二", "十", "百", "千", "万", "."] {
        if d == "." && rng.chance(1, 2) {
            continue;
        }
        let mut e = gen_entry(rng, d.to_string(), n, &pos_pool);
        e.pos = pos(POS_NUM);
        e.left = num_id;
        e.right = num_id;
        e.cost = 2000 + rng.below(1000) as i16;
        e.headword = d.to_string();
        e.norm = d.to_string();
        e.reading = d.to_string();
        e.synonyms.clear();
        sys.entries.push(e);
    }
    // make sure the OOV part of speech exists
    {
        let mut e = gen_entry(rng, "あ".to_string(), n, &pos_pool);
        e.pos = pos(POS_NOUN);
        sys.entries.push(e);
        let mut e = gen_entry(rng, "。".to_string(), n, &pos_pool);
        e.pos = pos(POS_SYM);
        sys.entries.push(e);
    }
    let rows = 3 + rng.below(opts.max_rows.max(4) - 3);
    for _ in 0..rows {
        let s = key_string(rng);
        let e = gen_entry(rng, s, n, &pos_pool);
        sys.entries.push(e);
    }
    // homographs
    for _ in 0..rng.below(4) {
        let i = rng.below(sys.entries.len());
        let mut e = gen_entry(rng, sys.entries[i].surface.clone(), n, &pos_pool);
        e.reading = format!("{}ン", e.reading);
        sys.entries.push(e);
    }
    // splits: words of >= 2 chars get A/B units that concatenate to the key
    let cur = sys.entries.len();
    for i in 0..cur {
        let chars: Vec<char> = sys.entries[i].surface.chars().collect();
        if chars.len() < 2 || sys.entries[i].pos == pos(POS_NUM) || !rng.chance(1, 2) {
            continue;
        }
        let pieces = partition(rng, &chars);
        let mut refs = vec![];
        for p in &pieces {
            let idx = ensure_entry(rng, &mut sys, p, n, &pos_pool, true);
            let style = if rng.chance(1, 3) && is_unique_target(&sys, idx) {
                RefStyle::Inline
            } else {
                RefStyle::Num
            };
            refs.push(WordRef {
                dic: 0,
                index: idx,
                style,
            });
        }
        // never let a word split into itself
        if refs.iter().any(|r| r.index == i) {
            continue;
        }
        let e = &mut sys.entries[i];
        match rng.below(3) {
            0 => {
                e.split_type = "C".into();
                e.split_a = refs.clone();
                e.split_b = if refs.len() == 3 && rng.chance(1, 2) {
                    vec![]
                } else {
                    refs.clone()
                };
            }
            1 => {
                e.split_type = "B".into();
                e.split_a = refs.clone();
            }
            _ => {
                e.split_type = "C".into();
                e.split_a = refs.clone();
                e.split_b = refs.clone();
            }
        }
        if rng.chance(1, 2) {
            e.word_structure = refs
                .iter()
                .map(|r| WordRef {
                    dic: 0,
                    index: r.index,
                    style: RefStyle::Num,
                })
                .collect();
        }
    }
    // a two-level family: a C unit whose B units themselves have A units (on-demand splits can then be
    // applied to the result of an on-demand split)
    let mut two_level: Option<String> = None;
    if rng.chance(1, 3) {
        let pick: Vec<&str> = (0..4).map(|_| KEY_CHARS[rng.below(21)]).collect();
        let (ab, cd) = (format!("{}{}", pick[0], pick[1]), format!("{}{}", pick[2], pick[3]));
        let whole = format!("{}{}", ab, cd);
        let ia = ensure_entry(rng, &mut sys, pick[0], n, &pos_pool, false);
        let ib = ensure_entry(rng, &mut sys, pick[1], n, &pos_pool, false);
        let iab = ensure_entry(rng, &mut sys, &ab, n, &pos_pool, false);
        let icd = ensure_entry(rng, &mut sys, &cd, n, &pos_pool, false);
        let iw = ensure_entry(rng, &mut sys, &whole, n, &pos_pool, false);
        let distinct = {
            let mut v = vec![ia, ib, iab, icd, iw];
            v.sort();
            v.dedup();
            v.len() == 5
        };
        if distinct && sys.entries[iab].pos != pos(POS_NUM) && sys.entries[iw].pos != pos(POS_NUM) {
            let r = |i: usize| WordRef { dic: 0, index: i, style: RefStyle::Num };
            sys.entries[iab].split_type = "B".into();
            sys.entries[iab].split_a = vec![r(ia), r(ib)];
            sys.entries[iab].split_b = vec![];
            sys.entries[iw].split_type = "C".into();
            sys.entries[iw].split_a = vec![r(ia), r(ib), r(icd)];
            sys.entries[iw].split_b = vec![r(iab), r(icd)];
            sys.entries[iw].word_structure = vec![r(iab), r(icd)];
            // make the long unit win over its parts
            sys.entries[iw].cost = -2000;
            sys.entries[iab].cost = 500;
            two_level = Some(whole.clone());
        }
    }
    // inline refs must be unique *after* all rows exist
    let snapshot = sys.clone();
    for e in sys.entries.iter_mut() {
        for r in e.split_a.iter_mut().chain(e.split_b.iter_mut()) {
            if r.style == RefStyle::Inline && !is_unique_target(&snapshot, r.index) {
                r.style = RefStyle::Num;
            }
        }
    }
    // dictionary forms
    let total = sys.entries.len();
    for i in 0..total {
        if rng.chance(1, 8) {
            let t = rng.below(total);
            sys.entries[i].dic_form = Some(WordRef {
                dic: 0,
                index: t,
                style: RefStyle::Num,
            });
        }
    }

    // ---- user lexicons ----
    let mut users = vec![];
    let mut nu = rng.below(opts.max_users + 1);
    if opts.max_users >= 2 && rng.chance(1, 12) {
        // many user dictionaries: dictionary ids use 4 bits, 1..=14 are user dictionaries
        nu = 8 + rng.below(7);
    }
    for _u in 0..nu {
        let mut ul = LexSpec { entries: vec![] };
        let mut upool = pos_pool.clone();
        if rng.chance(1, 2) {
            upool.push(pos(["被子植物門", "双子葉植物綱", "ムクロジ目", "ミカン科", "ミカン属", "スダチ"]));
        }
        for _ in 0..1 + rng.below(8) {
            let s = key_string(rng);
            let mut e = gen_entry(rng, s, n, &upool);
            if rng.chance(1, 4) {
                e.cost = -32768; // "compute the cost for me"
            }
            ul.entries.push(e);
        }
        let cur = ul.entries.len();
        for i in 0..cur {
            let chars: Vec<char> = ul.entries[i].surface.chars().collect();
            if chars.len() < 2 || !rng.chance(1, 2) {
                continue;
            }
            let pieces = partition(rng, &chars);
            let mut refs = vec![];
            for p in &pieces {
                // prefer an existing system word, else a user word
                if let Some(si) = sys.entries.iter().position(|e| &e.surface == p) {
                    // the compiled system dictionary is searched by *headword* (see DESIGN §6), so only
                    // targets whose headword equals their key and is unambiguous are referenced inline
                    let hw_ok = {
                        let t = &sys.entries[si];
                        t.headword == t.surface
                            && sys.entries.iter().filter(|e| e.headword == t.surface && e.pos == t.pos).count() == 1
                    };
                    let style = if rng.chance(1, 3) && hw_ok && is_unique_target(&sys, si) {
                        // inline reference: the user lexicon is searched first, so it must not
                        // contain the same (surface,pos,reading)
                        let t = &sys.entries[si];
                        if ul
                            .entries
                            .iter()
                            .any(|e| e.surface == t.surface && e.pos == t.pos && e.reading == t.reading)
                        {
                            RefStyle::Num
                        } else {
                            RefStyle::Inline
                        }
                    } else {
                        RefStyle::Num
                    };
                    refs.push(WordRef {
                        dic: 0,
                        index: si,
                        style,
                    });
                } else {
                    let idx = ensure_entry(rng, &mut ul, p, n, &upool, false);
                    refs.push(WordRef {
                        dic: 1,
                        index: idx,
                        style: RefStyle::UserNum,
                    });
                }
            }
            if refs.iter().any(|r| r.dic == 1 && r.index == i) {
                continue;
            }
            let e = &mut ul.entries[i];
            e.split_type = "C".into();
            e.split_a = refs.clone();
            if rng.chance(1, 2) {
                e.split_b = refs.clone();
            }
        }
        // inline refs to system words must stay unique wrt. the final user lexicon as well
        let usnap = ul.clone();
        for e in ul.entries.iter_mut() {
            for r in e.split_a.iter_mut().chain(e.split_b.iter_mut()) {
                if r.style == RefStyle::Inline {
                    let t = &sys.entries[r.index];
                    if usnap
                        .entries
                        .iter()
                        .any(|x| x.surface == t.surface && x.pos == t.pos && x.reading == t.reading)
                    {
                        r.style = RefStyle::Num;
                    }
                }
            }
        }
        users.push(ul);
    }

    // ---- resources ----
    let char_def = gen_char_def(rng);
    let unk_def = gen_unk_def(rng, n);
    let rewrite_def = gen_rewrite_def(rng);
    let (config, has_pr, has_di) = gen_config(rng, n, opts.full_plugins);

    let mut keys: Vec<String> = sys.entries.iter().map(|e| e.surface.clone()).collect();
    for u in &users {
        keys.extend(u.entries.iter().map(|e| e.surface.clone()));
    }
    keys.sort();
    keys.dedup();

    let spec = WorldSpec {
        matrix: matrix.render(rng, true),
        system_csv: sys.render(None),
        user_csv: users.iter().map(|u| u.render(Some(&sys))).collect(),
        char_def,
        unk_def,
        rewrite_def,
        config,
        keys,
        has_path_rewrite: has_pr,
        two_level,
        has_default_input: has_di,
    };
    let rec = WorldRecords {
        matrix,
        system: sys,
        users,
    };
    (spec, rec)
}

pub fn gen_char_def(rng: &mut Rng) -> String {
    let mut s = String::new();
    s.push_str("DEFAULT 0 1 0\nSPACE 0 1 0\n");
    s.push_str(&format!("KANJI 0 0 {}\n", rng.below(3)));
    s.push_str("SYMBOL 1 1 0\n");
    s.push_str(&format!("NUMERIC 1 1 {}\n", rng.below(2)));
    s.push_str(&format!("ALPHA {} 1 0\n", rng.below(2)));
    s.push_str(&format!("HIRAGANA 0 1 {}\n", rng.below(3)));
    s.push_str(&format!("KATAKANA 1 1 {}\n", rng.below(3)));
    s.push_str("KANJINUMERIC 1 1 0\nGREEK 1 1 0\nCYRILLIC 1 1 0\n");
    s.push_str("0x0020 SPACE\n0x00A0 SPACE\n0x3000 SPACE\n0x0009 SPACE\n");
    s.push_str("0x0021..0x002F SYMBOL\n0x0030..0x0039 NUMERIC\n0x0041..0x005A ALPHA\n0x0061..0x007A ALPHA\n");
    s.push_str("0x00C0..0x00FF ALPHA\n0x0391..0x03C9 GREEK\n0x0401..0x0451 CYRILLIC\n");
    s.push_str("0x3041..0x309F HIRAGANA\n0x30A1..0x30FF KATAKANA\n0x30FC KATAKANA HIRAGANA\n");
    if rng.chance(1, 2) {
        s.push_str("0x30A1 NOOOVBOW\n");
    }
    s.push_str("0xFF66..0xFF9F KATAKANA\n");
    s.push_str("0x3005 KANJI\n0x3007 KANJI KANJINUMERIC\n0x4E00..0x9FA5 KANJI\n0x20000..0x2A6D6 KANJI\n");
    s.push_str("0x4E00 KANJINUMERIC KANJI\n0x4E8C KANJINUMERIC KANJI\n0x5341 KANJINUMERIC KANJI\n0x767E KANJINUMERIC KANJI\n0x5343 KANJINUMERIC KANJI\n0x4E07 KANJINUMERIC KANJI\n");
    s.push_str("0xFF10..0xFF19 NUMERIC\n0xFF21..0xFF3A ALPHA\n0xFF41..0xFF5A ALPHA\n");
    s.push_str("0x3001..0x3002 SYMBOL\n0x1F600..0x1F64F SYMBOL\n");
    s.push_str("0x0300..0x036F ALL NOOOVBOW\n0x3099..0x309A ALL NOOOVBOW\n0xFE00..0xFE0F ALL NOOOVBOW\n");
    s.push_str("0x200C..0x200D ALL NOOOVBOW2\n");
    s
}

pub fn gen_unk_def(rng: &mut Rng, n: usize) -> String {
    let mut s = String::new();
    let cats = [
        "DEFAULT", "SPACE", "KANJI", "SYMBOL", "NUMERIC", "ALPHA", "HIRAGANA", "KATAKANA", "KANJINUMERIC", "GREEK",
        "CYRILLIC",
    ];
    for c in cats.iter() {
        let reps = 1 + rng.below(2);
        for k in 0..reps {
            let id = rng.below(n);
            let cost = rng.range(3000, 15000);
            let p = if *c == "NUMERIC" || *c == "KANJINUMERIC" {
                POS_NUM
            } else if *c == "SYMBOL" || *c == "DEFAULT" || *c == "SPACE" {
                POS_SYM
            } else if k == 1 {
                ["名詞", "固有名詞", "一般", "*", "*", "*"]
            } else {
                POS_NOUN
            };
            s.push_str(&format!("{},{},{},{},{}\n", c, id, id, cost, p.join(",")));
        }
    }
    s
}

pub fn gen_rewrite_def(rng: &mut Rng) -> String {
    let mut s = String::from("# ignore normalize\n");
    for c in ["Ⅰ", "Ω", "㌔"] {
        if rng.chance(1, 2) {
            s.push_str(c);
            s.push('\n');
        }
    }
    s.push_str("\n# replace\n");
    let rules = [
        ("ｶﾞ", "ガ"),
        ("ウ゛", "ヴ"),
        ("か\u{3099}", "が"),
        ("ｱ", "ア"),
        ("ｶ", "カ"),
        ("～", "ー"),
        ("㍿", "株式会社"),
        ("ｘ", "xx"),
    ];
    for (a, b) in rules.iter() {
        if rng.chance(2, 3) {
            s.push_str(&format!("{}\t{}\n", a, b));
        }
    }
    s
}

pub fn gen_config(rng: &mut Rng, n: usize, full: bool) -> (Value, bool, bool) {
    let mut input = vec![];
    let has_di = full || rng.chance(3, 4);
    if has_di {
        input.push(json!({"class":"com.worksap.nlp.sudachi.DefaultInputTextPlugin"}));
    }
    if full || rng.chance(1, 2) {
        // the documented defaults most of the time, otherwise another set of marks / another replacement
        let (marks, repl): (Vec<&str>, &str) = match rng.below(5) {
            0 => (vec!["ー", "〜"], "ー"),
            1 => (vec!["ー", "-", "〜", "〰", "~"], "〜"),
            2 => (vec!["-", "~"], "-"),
            _ => (vec!["ー", "-", "〜", "〰"], "ー"),
        };
        input.push(json!({"class":"com.worksap.nlp.sudachi.ProlongedSoundMarkPlugin",
            "prolongedSoundMarks": marks, "replacementSymbol": repl}));
    }
    if full || rng.chance(1, 2) {
        let (lb, rb): (Vec<&str>, Vec<&str>) = match rng.below(4) {
            0 => (vec!["(", "（", "[", "【"], vec![")", "）", "]", "】"]),
            1 => (vec!["（"], vec!["）"]),
            _ => (vec!["(", "（"], vec![")", "）"]),
        };
        input.push(json!({"class":"com.worksap.nlp.sudachi.IgnoreYomiganaPlugin",
            "leftBrackets": lb, "rightBrackets": rb, "maxYomiganaLength": 1 + rng.below(4)}));
    }
    if !full && rng.chance(1, 4) {
        rng.shuffle(&mut input);
    }
    let mut oov = vec![];
    if full || rng.chance(1, 3) {
        let id = rng.below(n);
        let regex_pat = ["[a-z0-9]+(-[a-z0-9]+)*", "[a-z]+-[0-9]+", "[a-c]+[0-9]", "x[a-z0-9]*", "z+", "z+"][rng.below(6)];
        oov.push(json!({"class":"com.worksap.nlp.sudachi.RegexOovProvider",
            "leftId": id, "rightId": id, "cost": 2000 + rng.below(5000),
            "regex": regex_pat, "maxLength": if rng.chance(1, 4) { 60 + rng.below(40) } else { 4 + rng.below(30) },
            "boundaries": if rng.chance(1,2) {"relaxed"} else {"strict"},
            "oovPOS": ["名詞", "普通名詞", "コード", "*", "*", "*"], "userPOS": "allow"}));
    }
    if full || rng.chance(2, 3) {
        oov.push(json!({"class":"com.worksap.nlp.sudachi.MeCabOovPlugin", "charDef": "char.def", "unkDef": "unk.def", "userPOS": "allow"}));
    }
    {
        let id = rng.below(n);
        oov.push(json!({"class":"com.worksap.nlp.sudachi.SimpleOovPlugin",
            "oovPOS": POS_SYM, "leftId": id, "rightId": id, "cost": 5000 + rng.below(20000)}));
    }
    // providers are consulted in the listed order and see what the earlier ones created
    if rng.chance(1, 2) {
        rng.shuffle(&mut oov);
    }
    let mut pr = vec![];
    if full || rng.chance(2, 3) {
        pr.push(json!({"class":"com.worksap.nlp.sudachi.JoinNumericPlugin", "enableNormalize": rng.chance(3,4)}));
    }
    if full || rng.chance(2, 3) {
        pr.push(json!({"class":"com.worksap.nlp.sudachi.JoinKatakanaOovPlugin", "oovPOS": POS_NOUN, "minLength": 1 + rng.below(4)}));
    }
    let mut cc = vec![];
    if full || rng.chance(1, 3) {
        let pairs: Vec<Value> = (0..1 + rng.below(3))
            .map(|_| json!([rng.below(n), rng.below(n)]))
            .collect();
        cc.push(json!({"class":"com.worksap.nlp.sudachi.InhibitConnectionPlugin", "inhibitPair": pairs}));
    }
    let has_pr = !pr.is_empty();
    let cfg = json!({
        "characterDefinitionFile": "char.def",
        "inputTextPlugin": input,
        "oovProviderPlugin": oov,
        "pathRewritePlugin": pr,
        "connectionCostPlugin": cc,
    });
    (cfg, has_pr, has_di)
}

// ------------------------------------------------------------------------------------------
// text generation

pub fn gen_text(rng: &mut Rng, keys: &[String]) -> String {
    let segs = match rng.below(12) {
        0 => 0,
        1..=4 => 1 + rng.below(3),
        5..=9 => 2 + rng.below(6),
        _ => 6 + rng.below(14),
    };
    let mut s = String::new();
    for _ in 0..segs {
        match rng.below(20) {
            0..=8 => {
                if !keys.is_empty() {
                    s.push_str(rng.pick(keys).as_str());
                }
            }
            9..=11 => {
                for _ in 0..1 + rng.below(3) {
                    s.push_str(KEY_CHARS[rng.below(KEY_CHARS.len())]);
                }
            }
            12..=14 => {
                for _ in 0..1 + rng.below(3) {
                    s.push_str(TEXT_CHARS[rng.below(TEXT_CHARS.len())]);
                }
            }
            15 => {
                // numerals
                let alpha = ["1", "2", "3", "0", "一", "二", "十", "百", "千", "万", ",", ".", "１"];
                for _ in 0..1 + rng.below(6) {
                    s.push_str(alpha[rng.below(alpha.len())]);
                }
            }
            16 => {
                // katakana run with prolonged marks
                let alpha = ["ア", "イ", "ウ", "カ", "ー", "ー", "〜", "ｱ"];
                for _ in 0..2 + rng.below(6) {
                    s.push_str(alpha[rng.below(alpha.len())]);
                }
            }
            17 => {
                // bracketed yomigana after kanji
                // (also after ideographs outside the basic plane: 4 bytes each)
                s.push_str(["東京", "東京", "京", "𠮟", "大𠮟", "𠮟𠮟"][rng.below(6)]);
                s.push_str(if rng.chance(1, 2) { "(" } else { "（" });
                for _ in 0..1 + rng.below(4) {
                    s.push_str(["と", "う", "き", "ょ"][rng.below(4)]);
                }
                s.push_str(if rng.chance(1, 2) { ")" } else { "）" });
            }
            18 if rng.chance(1, 2) => {
                // ascii codes: candidates of the regex OOV provider, matching and nearly matching
                let parts = ["abc", "ax", "b", "c", "x", "-", "12", "3", "a1", "xb2", "-0", "cb"];
                for _ in 0..1 + rng.below(4) {
                    s.push_str(parts[rng.below(parts.len())]);
                }
            }
            18 => {
                // long OOV run
                let c = ["z", "ん", "ン", "漢", "7", "a"][rng.below(6)];
                // word lengths around 64 characters (the width of the created-words mask) half of the time
                let n = if rng.chance(1, 2) { rng.below(70) } else { 62 + rng.below(8) };
                for _ in 0..n {
                    s.push_str(c);
                }
            }
            _ => {
                s.push_str(TEXT_CHARS[rng.below(TEXT_CHARS.len())]);
            }
        }
    }
    s
}

/// more than 49,149 bytes: rejected when the analysis starts
pub fn oversized_text(rng: &mut Rng) -> String {
    let unit = ["あ", "a", "東京", "𠮟"][rng.below(4)];
    let target = 49_150 + rng.below(64);
    let mut s = String::with_capacity(target + 8);
    while s.len() < target {
        s.push_str(unit);
    }
    s
}

/// at most 49,149 bytes but its NFKC form exceeds 65,535 bytes: rejected inside the first
/// normalising input-text plugin (mid-pipeline)
pub fn expanding_text(rng: &mut Rng) -> String {
    if rng.chance(1, 3) {
        // same-length one-to-one replacements by multi-byte characters first (upper case Cyrillic is lower-cased),
        // then expansions: the rewritten text ends up a little above or below 65535 bytes
        let k = 4000 + rng.below(8000);
        let target = 65535usize + rng.below(2 * k) - k; // real length of the rewritten text
        let m = target.saturating_sub(2 * k) / 12;
        let mut s = String::with_capacity(2 * k + 3 * m + 8);
        for _ in 0..k {
            s.push('Ж');
        }
        for _ in 0..m {
            s.push('㍿');
        }
        return s;
    }
    // U+FDFA expands to 18 code points (33 bytes) under NFKC
    let n = 2000 + rng.below(200);
    let mut s = String::with_capacity(n * 3 + 8);
    if rng.chance(1, 2) {
        s.push_str("東京");
    }
    for _ in 0..n {
        s.push('\u{FDFA}');
    }
    s
}
