//! TokSim (C10): results do not depend on the history of a tokenizer or result list.
//!
//! System under simulation: real `StatefulTokenizer<Arc<SimDict>>`, real `MorphemeList`, real
//! plugins behind delegating wrappers. Reference model: a freshly created tokenizer/list on the
//! un-wrapped dictionary with the same mode and field request.

use crate::harness::{catch, Engine, Stats, Violation};
use crate::proj::{first_diff, partition_ok, project, ListProj};
use crate::rng::{fnv1a, fnv_mix, Rng};
use crate::simdict::{Fault, SimDict};
use crate::world::{expanding_text, gen_text, gen_world, oversized_text, WorldGenOpts, WorldSpec};
use crate::worldcache::get_world;
use serde::{Deserialize, Serialize};
use serde_json::{json, Value};
use std::path::Path;
use std::sync::Arc;
use sudachi::analysis::mlist::MorphemeList;
use sudachi::analysis::stateful_tokenizer::StatefulTokenizer;
use sudachi::analysis::Mode;
use sudachi::dic::dictionary::JapaneseDictionary;
use sudachi::dic::subset::InfoSubset;

#[derive(Clone, Debug, Serialize, Deserialize)]
#[serde(tag = "op", rename_all = "snake_case")]
pub enum TokOp {
    SetMode { t: usize, mode: String },
    SetSubset { t: usize, bits: u32 },
    /// one-shot fault for the next analysis on tokenizer t
    Arm { t: usize, fault: Fault },
    /// reset(); push_str(text); do_tokenize()
    Analyse { t: usize, text: String },
    /// list.collect_results(tokenizer): only executed after a successful, uncollected analysis
    Collect { t: usize, l: usize },
    /// out.clear(); list.split_into(mode, idx, out)
    SplitInto { l: usize, idx: usize, mode: String, out: usize },
    Clear { l: usize },
    /// read a list again and compare with what it showed when it was filled
    Reread { l: usize },
    /// list.clear(); list.lookup(query, all fields)
    Lookup { l: usize, query: String },
    /// SentenceSplitter::with_checker(dict.lexicon()).split(text)  (ConcSim only; TokSim ignores it)
    Sentences { text: String },
    /// collect_results while a list that shares the target's text holds a live borrow (`surface()` of one of its
    /// morphemes): the call must be refused with an error and change nothing; the following Collect retries it
    CollectHeld { t: usize, l: usize, holder: usize },
    /// the tokenizer's debug flag: dumps go to the (discarded) standard output, results must not change
    SetDebug { t: usize, on: bool },
}

#[derive(Clone, Debug, Serialize, Deserialize)]
pub struct TokCase {
    pub world: WorldSpec,
    pub n_tok: usize,
    pub n_lists: usize,
    pub ops: Vec<TokOp>,
    /// how many tokenizers (counted from the last one) are created over the world's sibling dictionary (same lexicons,
    /// grammar and plugins, sparser char.def); they fill the same result lists as the tokenizers of the main dictionary
    #[serde(default)]
    pub sibling: usize,
}

pub fn mode_of(s: &str) -> Mode {
    match s {
        "A" => Mode::A,
        "B" => Mode::B,
        _ => Mode::C,
    }
}

pub fn mode_subset(m: Mode) -> InfoSubset {
    match m {
        Mode::A => InfoSubset::SPLIT_A,
        Mode::B => InfoSubset::SPLIT_B,
        _ => InfoSubset::empty(),
    }
}

pub struct TokSim;

pub fn gen_subset(rng: &mut Rng, need_pr: bool) -> u32 {
    let mut bits = match rng.below(6) {
        0 => InfoSubset::all().bits(),
        1 => 0,
        2 => InfoSubset::SURFACE.bits(),
        _ => (rng.next_u64() as u32) & InfoSubset::all().bits(),
    };
    if need_pr {
        bits |= (InfoSubset::SURFACE | InfoSubset::POS_ID | InfoSubset::NORMALIZED_FORM).bits();
    }
    bits
}

pub fn gen_fault(rng: &mut Rng) -> Fault {
    match rng.below(10) {
        0..=2 => Fault::InputText {
            index: rng.below(3),
            when: ["before", "after", "in_edit"][rng.below(3)].to_string(),
        },
        3..=4 => Fault::Oov { nth: rng.below(12) },
        5..=6 => Fault::OovMute { from: rng.below(8) },
        _ => Fault::PathRewrite {
            index: rng.below(2),
            when: ["before", "after"][rng.below(2)].to_string(),
        },
    }
}

pub fn gen_ops(rng: &mut Rng, world: &WorldSpec, n_tok: usize, n_lists: usize, steps: usize, heavy: bool) -> Vec<TokOp> {
    let modes = ["A", "B", "C"];
    let mut ops = vec![];
    for _ in 0..steps {
        let t = rng.below(n_tok);
        let l = rng.below(n_lists);
        match rng.weighted(&[45, 8, 6, 10, if heavy { 3 } else { 0 }, if heavy { 2 } else { 0 }, 5, 10, 4, 5, 2, 2, if world.two_level.is_some() { 4 } else { 0 }, 3, 3, 4]) {
            0 => {
                ops.push(TokOp::Analyse { t, text: gen_text(rng, &world.keys) });
                if rng.chance(17, 20) {
                    ops.push(TokOp::Collect { t, l });
                }
            }
            1 => ops.push(TokOp::SetMode { t, mode: modes[rng.below(3)].to_string() }),
            2 => ops.push(TokOp::SetSubset { t, bits: gen_subset(rng, world.has_path_rewrite) }),
            3 => {
                ops.push(TokOp::Arm { t, fault: gen_fault(rng) });
                ops.push(TokOp::Analyse { t, text: gen_text(rng, &world.keys) });
                if rng.chance(1, 2) {
                    ops.push(TokOp::Collect { t, l });
                }
            }
            4 => ops.push(TokOp::Analyse { t, text: oversized_text(rng) }),
            5 => ops.push(TokOp::Analyse { t, text: expanding_text(rng) }),
            6 => {
                let text = ["", " ", "\u{3099}", "(", "ー"][rng.below(5)].to_string();
                ops.push(TokOp::Analyse { t, text });
                if rng.chance(3, 4) {
                    ops.push(TokOp::Collect { t, l });
                }
            }
            7 => {
                let out = (l + 1 + rng.below(n_lists.max(2) - 1)) % n_lists.max(1);
                ops.push(TokOp::SplitInto { l, idx: rng.below(6), mode: modes[rng.below(2)].to_string(), out });
            }
            8 => ops.push(TokOp::Clear { l }),
            9 => ops.push(TokOp::Reread { l }),
            11 => ops.push(TokOp::SetDebug { t, on: rng.chance(2, 3) }),
            15 => {
                // two texts that start with equally long runs (about 64 characters: words of that length are tracked
                // inexactly) of different letters; the analysis of the first one is made to fail inside an OOV provider
                let n = 62 + rng.below(9);
                let t1 = format!("{}{}", "a".repeat(n), ["。", "東", " "][rng.below(3)]);
                let t2 = format!("{}{}", "z".repeat(n), ["aaa", "b", "。"][rng.below(3)]);
                ops.push(TokOp::Arm { t, fault: Fault::Oov { nth: rng.below(3) } });
                ops.push(TokOp::Analyse { t, text: t1 });
                ops.push(TokOp::Analyse { t, text: t2 });
                ops.push(TokOp::Collect { t, l });
            }
            14 => {
                // the very same text again right after an analysis of it was made to fail
                let text = gen_text(rng, &world.keys);
                ops.push(TokOp::Arm { t, fault: gen_fault(rng) });
                ops.push(TokOp::Analyse { t, text: text.clone() });
                ops.push(TokOp::Analyse { t, text });
                ops.push(TokOp::Collect { t, l });
            }
            13 => {
                // a split result keeps sharing the text of its parent; the parent is then refilled while the split
                // result is being read
                let o1 = (l + 1) % n_lists.max(1);
                ops.push(TokOp::Analyse { t, text: gen_text(rng, &world.keys) });
                ops.push(TokOp::Collect { t, l });
                ops.push(TokOp::SplitInto { l, idx: 0, mode: modes[rng.below(2)].to_string(), out: o1 });
                ops.push(TokOp::Analyse { t, text: gen_text(rng, &world.keys) });
                ops.push(TokOp::CollectHeld { t, l, holder: o1 });
                ops.push(TokOp::Collect { t, l });
            }
            12 => {
                // analyse a text with the two-level word, split it on demand, then split the result again
                let w = world.two_level.clone().unwrap_or_default();
                let text = format!("{}{}{}", if rng.chance(1, 2) { gen_text(rng, &world.keys) } else { String::new() }, w, if rng.chance(1, 2) { "。" } else { "" });
                let o1 = (l + 1) % n_lists.max(1);
                let o2 = (l + 2) % n_lists.max(1);
                ops.push(TokOp::Analyse { t, text });
                ops.push(TokOp::Collect { t, l });
                ops.push(TokOp::SplitInto { l, idx: 0, mode: "B".into(), out: o1 });
                ops.push(TokOp::SplitInto { l: o1, idx: 0, mode: "A".into(), out: o2 });
            }
            _ => {
                let q = if world.keys.is_empty() { "あ".to_string() } else { rng.pick(&world.keys).clone() };
                ops.push(TokOp::Lookup { l, query: q });
            }
        }
    }
    ops
}

impl Engine for TokSim {
    type Case = TokCase;
    fn name(&self) -> &'static str {
        "toksim"
    }
    fn property(&self) -> &'static str {
        "C10"
    }
    fn chunk(&self) -> u64 {
        24
    }

    fn generate(&self, seed: u64, run: u64) -> TokCase {
        let mut wr = Rng::derive(seed, "toksim/world", run / self.chunk());
        let (world, _) = gen_world(&mut wr, &WorldGenOpts::default());
        let mut rng = Rng::derive(seed, "toksim/ops", run);
        let n_tok = 1 + rng.below(3);
        let n_lists = 1 + rng.below(4);
        let steps = 3 + rng.below(18);
        let heavy = rng.chance(1, 6);
        let ops = gen_ops(&mut rng, &world, n_tok, n_lists, steps, heavy);
        let mut sr = Rng::derive(seed, "toksim/sibling", run);
        let sibling = if n_tok >= 2 && sr.chance(1, 4) { 1 + sr.below(n_tok - 1) } else { 0 };
        TokCase { world, n_tok, n_lists, ops, sibling }
    }

    fn execute(&self, case: &TokCase, stats: &mut Stats, work: &Path) -> Option<Violation> {
        execute(case, stats, work)
    }

    fn shrink(&self, case: &TokCase, _v: &Violation) -> Vec<TokCase> {
        let mut out = vec![];
        // 1. drop op chunks
        let n = case.ops.len();
        let mut size = n / 2;
        while size >= 1 {
            let mut start = 0;
            while start < n {
                let end = (start + size).min(n);
                let mut c = case.clone();
                c.ops.drain(start..end);
                out.push(c);
                start += size;
            }
            size /= 2;
        }
        // 2. simplify ops
        for (i, op) in case.ops.iter().enumerate() {
            match op {
                TokOp::Analyse { t, text } if !text.is_empty() => {
                    let chars: Vec<char> = text.chars().collect();
                    let k = chars.len();
                    for (a, b) in [(0, k / 2), (k / 2, k), (0, k - 1), (1, k)] {
                        if a < b && b - a < k {
                            let mut c = case.clone();
                            c.ops[i] = TokOp::Analyse { t: *t, text: chars[a..b].iter().collect() };
                            out.push(c);
                        }
                    }
                }
                TokOp::SetSubset { t, bits } if *bits != 0 => {
                    for b in 0..10 {
                        if bits & (1 << b) != 0 {
                            let mut c = case.clone();
                            c.ops[i] = TokOp::SetSubset { t: *t, bits: bits & !(1 << b) };
                            out.push(c);
                        }
                    }
                }
                _ => {}
            }
        }
        // 3. shrink the world: user dictionaries, trailing system rows, plugins
        for u in 0..case.world.user_csv.len() {
            let mut c = case.clone();
            c.world.user_csv.remove(u);
            out.push(c);
        }
        {
            let lines: Vec<&str> = case.world.system_csv.lines().collect();
            let mut k = lines.len() / 2;
            while k >= 1 {
                if lines.len() > k {
                    let mut c = case.clone();
                    c.world.system_csv = lines[..lines.len() - k].join("\n") + "\n";
                    out.push(c);
                }
                k /= 2;
            }
        }
        for key in ["inputTextPlugin", "pathRewritePlugin", "connectionCostPlugin", "oovProviderPlugin"] {
            if let Some(arr) = case.world.config[key].as_array() {
                let min = if key == "oovProviderPlugin" { 1 } else { 0 };
                if arr.len() > min {
                    for j in 0..arr.len() {
                        let mut c = case.clone();
                        c.world.config[key].as_array_mut().unwrap().remove(j);
                        out.push(c);
                    }
                }
            }
        }
        if !case.world.keys.is_empty() {
            let mut c = case.clone();
            c.world.keys.clear();
            out.push(c);
        }
        out
    }

    fn sample(&self, case: &TokCase) -> Value {
        json!({
            "tokenizers": case.n_tok, "lists": case.n_lists,
            "system_rows": case.world.system_csv.lines().count(),
            "user_dicts": case.world.user_csv.len(),
            "plugins": case.world.config,
            "ops": case.ops.iter().map(|o| {
                let mut v = serde_json::to_value(o).unwrap();
                if let Some(t) = v.get("text").and_then(|t| t.as_str()) {
                    if t.len() > 120 { v["text"] = json!(format!("<{} bytes>", t.len())); }
                }
                v
            }).collect::<Vec<_>>(),
        })
    }
}

struct TokState {
    tok: StatefulTokenizer<Arc<SimDict>>,
    sim: Arc<SimDict>,
    mode: Mode,
    req: Option<InfoSubset>,
    pending: Option<Fault>,
    /// Some(..) after an analysis that returned Ok and has not been collected
    ready: Option<Ready>,
    prev_len: usize,
    debug: bool,
    /// the un-wrapped dictionary this tokenizer analyses with (main or sibling): fresh references use the same one
    base: Arc<JapaneseDictionary>,
    sib: bool,
}

#[derive(Clone)]
struct Ready {
    text: String,
    mode: Mode,
    req: Option<InfoSubset>,
    sib: bool,
    faulted: bool,
    reference: Option<Result<(ListProj, InfoSubset), String>>,
}

#[derive(Clone)]
struct Source {
    text: String,
    mode: Mode,
    req: Option<InfoSubset>,
    /// on-demand splits applied since the analysis: (mode, index) per level
    path: Vec<(Mode, usize)>,
    /// analysed by a tokenizer of the sibling dictionary
    sib: bool,
}

/// the list a history-free run produces for this derivation: fresh analysis, then the same chain of splits
fn derive_fresh(d: &Arc<JapaneseDictionary>, s: &Source) -> Result<MorphemeList<Arc<JapaneseDictionary>>, String> {
    let mut cur = fresh_analyse(d, s.mode, s.req, &s.text)?;
    for (m, idx) in s.path.iter() {
        let mut o = MorphemeList::empty(d.clone());
        let did = cur.split_into(*m, *idx, &mut o).map_err(|e| format!("{}", e))?;
        if !did {
            return Err("derivation chain does not split on fresh objects".into());
        }
        cur = o;
    }
    Ok(cur)
}

struct ListState {
    list: MorphemeList<Arc<SimDict>>,
    valid: bool,
    group: usize,
    /// what the list showed when it was filled (projection under `fields`)
    shown: Option<(ListProj, InfoSubset)>,
    source: Option<Source>,
}

/// fresh tokenizer + fresh list on the real dictionary
pub fn fresh_analyse(
    dict: &Arc<JapaneseDictionary>,
    mode: Mode,
    req: Option<InfoSubset>,
    text: &str,
) -> Result<MorphemeList<Arc<JapaneseDictionary>>, String> {
    struct Phase;
    impl Drop for Phase {
        fn drop(&mut self) {
            crate::harness::set_phase(0);
        }
    }
    crate::harness::set_phase(1);
    let _p = Phase;
    let mut tok = StatefulTokenizer::create(dict.clone(), false, mode);
    if let Some(s) = req {
        tok.set_subset(s);
    }
    tok.reset().push_str(text);
    tok.do_tokenize().map_err(|e| format!("{}", e))?;
    let mut list = MorphemeList::empty(dict.clone());
    list.collect_results(&mut tok).map_err(|e| format!("{}", e))?;
    Ok(list)
}

fn viol(class: &str, site: &str, op_index: usize, detail: Value) -> Option<Violation> {
    Some(Violation { class: class.to_string(), site: site.to_string(), op_index, detail })
}

fn len_class(n: usize) -> u64 {
    match n {
        0 => 0,
        1..=8 => 1,
        9..=40 => 2,
        41..=400 => 3,
        _ => 4,
    }
}

pub fn execute(case: &TokCase, stats: &mut Stats, work: &Path) -> Option<Violation> {
    let world = match get_world(&case.world, work) {
        Ok(w) => w,
        Err(e) => {
            stats.inc("world_build_failed");
            if stats.counters["world_build_failed"] <= 1 && !crate::harness::minimising() {
                eprintln!("toksim: world build failed: {}", e);
            }
            return None;
        }
    };
    let dict = world.dict.clone();
    let sibdict = if case.sibling > 0 { crate::worldcache::get_sibling(&case.world, &world) } else { None };
    if case.sibling > 0 {
        stats.inc(if sibdict.is_some() { "reach.sibling_dictionary" } else { "sibling_dictionary_did_not_load" });
    }
    let n_all = case.n_tok.max(1);
    let mut toks: Vec<TokState> = (0..n_all)
        .map(|i| {
            let sib = sibdict.is_some() && i + case.sibling >= n_all && i > 0;
            let base = if sib { sibdict.clone().unwrap() } else { dict.clone() };
            let sim = Arc::new(SimDict::new(base.clone()));
            TokState {
                tok: StatefulTokenizer::create(sim.clone(), false, Mode::C),
                sim,
                mode: Mode::C,
                req: None,
                pending: None,
                ready: None,
                prev_len: 0,
                debug: false,
                base,
                sib,
            }
        })
        .collect();
    let list_dict = Arc::new(SimDict::new(dict.clone()));
    let mut lists: Vec<ListState> = (0..case.n_lists.max(1))
        .map(|i| ListState {
            list: MorphemeList::empty(list_dict.clone()),
            valid: true,
            group: i,
            shown: None,
            source: None,
        })
        .collect();
    let mut next_group = lists.len();
    let mut digest: u64 = fnv1a(b"toksim");
    let mut history_ops = 0u64;
    let mut probes = 0u64;

    for (oi, op) in case.ops.iter().enumerate() {
        stats.inc("ops");
        match op {
            TokOp::SetMode { t, mode } => {
                let ts = &mut toks[*t % case.n_tok.max(1)];
                let m = mode_of(mode);
                ts.tok.set_mode(m);
                ts.mode = m;
                history_ops += 1;
                stats.inc("op.set_mode");
            }
            TokOp::SetSubset { t, bits } => {
                let ts = &mut toks[*t % case.n_tok.max(1)];
                let s = InfoSubset::from_bits_truncate(*bits);
                ts.tok.set_subset(s);
                ts.req = Some(s);
                history_ops += 1;
                stats.inc("op.set_subset");
            }
            TokOp::Arm { t, fault } => {
                toks[*t % case.n_tok.max(1)].pending = Some(fault.clone());
                stats.inc("op.arm");
            }
            TokOp::SetDebug { t, on } => {
                toks[*t % case.n_tok.max(1)].debug = *on;
                history_ops += 1;
                stats.inc("op.set_debug");
            }
            TokOp::Analyse { t, text } => {
                let ts = &mut toks[*t % case.n_tok.max(1)];
                stats.inc("op.analyse");
                history_ops += 1;
                let armed = ts.pending.take();
                let was_armed = armed.is_some();
                ts.sim.ctl.arm(armed);
                ts.ready = None;
                // lattice dumps of long texts are enormous: the flag is only honoured for short ones
                let dbg = ts.debug && text.len() <= 600;
                ts.tok.set_debug(dbg);
                if dbg {
                    stats.inc("reach.debug_analyses");
                }
                let r = catch(|| {
                    ts.tok.reset().push_str(text);
                    ts.tok.do_tokenize()
                });
                let fired = ts.sim.ctl.fired() > 0;
                let stage = ts.sim.ctl.fired_stage();
                ts.sim.ctl.arm(None);
                if was_armed {
                    stats.inc(if fired { "fault.fired" } else { "fault.armed_not_fired" });
                }
                if fired {
                    stats.inc(&format!("fault.stage.{}", ["none", "input_text", "oov_error", "oov_mute", "path_rewrite"][stage.min(4)]));
                }
                // reference: same text on a fresh tokenizer (no faults)
                let (mode, req) = (ts.mode, ts.req);
                let reference = if fired {
                    None
                } else {
                    let d = ts.base.clone();
                    Some(catch(move || fresh_analyse(&d, mode, req, text).map(|l| {
                        let f = l.subset();
                        (project(&l, f), f)
                    })))
                };
                let subject_class = match &r {
                    Ok(Ok(())) => 0u64,
                    Ok(Err(_)) => 1,
                    Err(_) => 2,
                };
                digest = fnv_mix(digest, subject_class);
                stats.sigs2.insert(fnv_mix(
                    fnv_mix(fnv_mix(fnv_mix(1, mode as u64), len_class(ts.prev_len)), len_class(text.len())),
                    subject_class * 8 + stage as u64,
                ));
                ts.prev_len = text.len();
                match r {
                    Err(p) => {
                        // panic in the subject
                        match reference {
                            Some(Err(_)) => {
                                *stats.unclaimed.entry(format!("C03.panic-also-in-fresh@{}", p.site)).or_insert(0) += 1;
                                return None; // state unknown, stop this run without a verdict
                            }
                            _ => {
                                return viol("panic-in-subject", &p.site, oi, json!({"op":"analyse","message":p.msg,"fault_fired":fired}));
                            }
                        }
                    }
                    Ok(Err(e)) => {
                        stats.inc("analyse.err");
                        if text.len() > 49149 {
                            stats.inc("reach.rejected_oversized");
                        }
                        if !fired {
                            match reference {
                                Some(Ok(Ok(_))) => {
                                    return viol("outcome-differs-from-fresh", "subject-err-reference-ok", oi, json!({"error": format!("{}", e), "text": crate::proj::trunc(text)}));
                                }
                                Some(Err(p)) => {
                                    *stats.unclaimed.entry(format!("C03.panic-in-fresh@{}", p.site)).or_insert(0) += 1;
                                }
                                _ => {
                                    if text.len() <= 49149 {
                                        stats.inc("reach.rejected_mid_pipeline_or_disconnect");
                                    }
                                }
                            }
                        } else {
                            stats.inc("reach.failed_analysis_with_fault");
                        }
                    }
                    Ok(Ok(())) => {
                        stats.inc("analyse.ok");
                        let refr = match reference {
                            None => None,
                            Some(Err(p)) => {
                                *stats.unclaimed.entry(format!("C03.panic-in-fresh@{}", p.site)).or_insert(0) += 1;
                                if std::env::var("VSIM_DEBUG_UNCLAIMED").is_ok() {
                                    return viol("debug-unclaimed", &p.site, oi, json!({"message": p.msg, "text": text}));
                                }
                                None
                            }
                            Some(Ok(Err(e))) => {
                                return viol("outcome-differs-from-fresh", "subject-ok-reference-err", oi, json!({"reference_error": e, "text": crate::proj::trunc(text)}));
                            }
                            Some(Ok(Ok(pf))) => Some(Ok(pf)),
                        };
                        ts.ready = Some(Ready { text: text.clone(), mode, req, sib: ts.sib, faulted: fired, reference: refr });
                    }
                }
            }
            TokOp::CollectHeld { t, l, holder } => {
                let ti = *t % case.n_tok.max(1);
                let li = *l % case.n_lists.max(1);
                let hi = *holder % case.n_lists.max(1);
                if hi == li || toks[ti].ready.is_none() || !lists[hi].valid || lists[hi].group != lists[li].group || lists[hi].list.len() == 0 {
                    stats.inc("skipped.collect_held");
                    continue;
                }
                let (a, b) = if li < hi {
                    let (x, y) = lists.split_at_mut(hi);
                    (&mut x[li], &y[0])
                } else {
                    let (x, y) = lists.split_at_mut(li);
                    (&mut y[0], &x[hi])
                };
                let ts = &mut toks[ti];
                let r = catch(|| {
                    let m = b.list.get(0);
                    let keep = m.surface();
                    let r = a.list.collect_results(&mut ts.tok);
                    drop(keep);
                    r.map_err(|e| format!("{}", e))
                });
                match r {
                    Err(p) => return viol("panic-in-subject", &p.site, oi, json!({"op":"collect_held","message":p.msg})),
                    Ok(Err(_)) => {
                        // refused: nothing may have changed, the next Collect repeats the call and is compared as usual
                        stats.inc("reach.collect_refused_while_borrowed");
                        history_ops += 1;
                    }
                    Ok(Ok(())) => {
                        // the lists did not share their text after all: an ordinary, uncompared collect
                        stats.inc("collect_held.not_shared");
                        toks[ti].ready = None;
                        let g = lists[li].group;
                        for (j, o) in lists.iter_mut().enumerate() {
                            if j != li && o.group == g {
                                o.valid = false;
                                o.shown = None;
                            }
                        }
                        lists[li].valid = true;
                        lists[li].shown = None;
                        lists[li].source = None;
                    }
                }
            }
            TokOp::Collect { t, l } => {
                let ti = *t % case.n_tok.max(1);
                let li = *l % case.n_lists.max(1);
                let ready = match toks[ti].ready.take() {
                    Some(r) => r,
                    None => {
                        stats.inc("skipped.collect_without_result");
                        continue;
                    }
                };
                stats.inc("op.collect");
                let reused = lists[li].shown.is_some() || lists[li].list.len() > 0;
                let ts = &mut toks[ti];
                let ls = &mut lists[li];
                let r = catch(|| ls.list.collect_results(&mut ts.tok));
                match r {
                    Err(p) => return viol("panic-in-subject", &p.site, oi, json!({"op":"collect","message":p.msg})),
                    Ok(Err(e)) => {
                        return viol("outcome-differs-from-fresh", "collect-failed", oi, json!({"error": format!("{}", e)}));
                    }
                    Ok(Ok(())) => {}
                }
                // invalidate the other members of the list's sharing group
                let g = lists[li].group;
                for (j, o) in lists.iter_mut().enumerate() {
                    if j != li && o.group == g {
                        o.valid = false;
                        o.shown = None;
                    }
                }
                let ls = &mut lists[li];
                ls.valid = true;
                if reused {
                    stats.inc("reach.list_reused");
                }
                if ready.faulted {
                    ls.shown = None;
                    ls.source = None;
                    stats.inc("collect.after_fault_not_compared");
                    // still must be readable without panicking
                    let r = catch(|| project(&ls.list, InfoSubset::empty()));
                    if let Err(p) = r {
                        return viol("panic-in-subject", &p.site, oi, json!({"op":"read-after-faulted-ok-analysis","message":p.msg}));
                    }
                    continue;
                }
                let (rp, fields) = match ready.reference {
                    Some(Ok(x)) => x,
                    _ => {
                        ls.shown = None;
                        ls.source = None;
                        continue;
                    }
                };
                let sp = match catch(|| project(&ls.list, fields)) {
                    Ok(p) => p,
                    Err(p) => return viol("panic-in-subject", &p.site, oi, json!({"op":"read","message":p.msg})),
                };
                probes += 1;
                stats.inc("probe.compared");
                if history_ops > 1 {
                    stats.inc("probe.with_history");
                }
                if !partition_ok(&sp) {
                    *stats.unclaimed.entry("C01.partition".into()).or_insert(0) += 1;
                }
                digest = fnv_mix(digest, fnv1a(serde_json::to_string(&sp).unwrap().as_bytes()));
                if let Some((mi, field, a, b)) = first_diff(&sp, &rp) {
                    return viol(
                        "result-differs-from-fresh",
                        &field,
                        oi,
                        json!({"morpheme": mi, "field": field, "subject": a, "reference": b, "text": crate::proj::trunc(&ready.text),
                               "mode": format!("{}", ready.mode), "requested": ready.req.map(|s| s.bits())}),
                    );
                }
                ls.shown = Some((sp, fields));
                if ready.sib && reused {
                    stats.inc("reach.list_reused_across_dictionaries");
                }
                ls.source = Some(Source { text: ready.text, mode: ready.mode, req: ready.req, path: vec![], sib: ready.sib });
            }
            TokOp::SplitInto { l, idx, mode, out } => {
                let li = *l % case.n_lists.max(1);
                let oi2 = *out % case.n_lists.max(1);
                if li == oi2 || !lists[li].valid || lists[li].source.is_none() || lists[li].list.len() == 0 {
                    stats.inc("skipped.split");
                    continue;
                }
                let m = mode_of(mode);
                if m == Mode::C {
                    continue;
                }
                // idx selects among the morphemes that declare splits in this mode when there are any
                let idx = {
                    let shown = lists[li].shown.as_ref().map(|x| &x.0);
                    let cands: Vec<usize> = match shown {
                        Some(p) => p
                            .morphemes
                            .iter()
                            .enumerate()
                            .filter(|(_, mm)| {
                                let v = if m == Mode::A { &mm.split_a } else { &mm.split_b };
                                v.as_ref().map(|x| !x.is_empty()).unwrap_or(false)
                            })
                            .map(|(i, _)| i)
                            .collect(),
                        None => vec![],
                    };
                    if !cands.is_empty() && *idx % 4 != 3 {
                        cands[*idx % cands.len()]
                    } else {
                        *idx % lists[li].list.len()
                    }
                };
                // on-demand splitting reads the split field of that mode: only judged when the field is
                // part of the *request* (earlier mode changes legitimately leave extra fields loaded)
                {
                    let requested = lists[li].shown.as_ref().map(|x| x.1).unwrap_or(InfoSubset::empty());
                    if !requested.contains(mode_subset(m)) {
                        stats.inc("skipped.split_field_not_requested");
                        continue;
                    }
                }
                stats.inc("op.split_into");
                history_ops += 1;
                let src = lists[li].source.clone().unwrap();
                // borrow two distinct elements
                let (a, b) = if li < oi2 {
                    let (x, y) = lists.split_at_mut(oi2);
                    (&mut x[li], &mut y[0])
                } else {
                    let (x, y) = lists.split_at_mut(li);
                    (&mut y[0], &mut x[oi2])
                };
                let r = catch(|| {
                    b.list.clear();
                    a.list.split_into(m, idx, &mut b.list)
                });
                let did = match r {
                    Err(p) => {
                        // same op on a fresh pair
                        let d = if src.sib { sibdict.clone().unwrap_or_else(|| dict.clone()) } else { dict.clone() };
                        let s2 = src.clone();
                        let rr = catch(move || {
                            let fl = derive_fresh(&d, &s2)?;
                            let mut fo = MorphemeList::empty(d.clone());
                            fl.split_into(m, idx, &mut fo).map_err(|e| format!("{}", e))
                        });
                        if rr.is_err() {
                            *stats.unclaimed.entry("C09.split-panics-also-on-fresh".into()).or_insert(0) += 1;
                            return None;
                        }
                        return viol("panic-in-subject", &p.site, oi, json!({"op":"split_into","message":p.msg}));
                    }
                    Ok(Err(e)) => {
                        return viol("outcome-differs-from-fresh", "split-failed", oi, json!({"error": format!("{}", e)}));
                    }
                    Ok(Ok(d)) => d,
                };
                // reference
                let d = if src.sib { sibdict.clone().unwrap_or_else(|| dict.clone()) } else { dict.clone() };
                let s2 = src.clone();
                let fields_a = a.shown.as_ref().map(|x| x.1).unwrap_or(InfoSubset::empty());
                let rr = catch(move || -> Result<(bool, ListProj), String> {
                    let fl = derive_fresh(&d, &s2)?;
                    let mut fo = MorphemeList::empty(d.clone());
                    let did = fl.split_into(m, idx, &mut fo).map_err(|e| format!("{}", e))?;
                    Ok((did, project(&fo, fields_a)))
                });
                let (rdid, rproj) = match rr {
                    Ok(Ok(x)) => x,
                    Ok(Err(e)) => {
                        return viol("outcome-differs-from-fresh", "split-reference-failed", oi, json!({"error": e}));
                    }
                    Err(_) => {
                        *stats.unclaimed.entry("C09.split-panics-on-fresh".into()).or_insert(0) += 1;
                        return None;
                    }
                };
                if did {
                    // out now shares a's input
                    b.group = a.group;
                    b.valid = true;
                    stats.inc("reach.split_shares_input");
                } else {
                    // nothing written; out keeps its (cleared) state
                }
                let sp = match catch(|| project(&b.list, fields_a)) {
                    Ok(p) => p,
                    Err(p) => return viol("panic-in-subject", &p.site, oi, json!({"op":"read-split","message":p.msg})),
                };
                if did != rdid {
                    return viol("result-differs-from-fresh", "split.returned", oi, json!({"subject": did, "reference": rdid}));
                }
                if did {
                    probes += 1;
                    stats.inc("probe.split_compared");
                    digest = fnv_mix(digest, fnv1a(serde_json::to_string(&sp).unwrap().as_bytes()));
                    if let Some((mi, field, x, y)) = first_diff(&sp, &rproj) {
                        return viol("result-differs-from-fresh", &format!("split.{}", field), oi, json!({"morpheme": mi, "subject": x, "reference": y}));
                    }
                    b.shown = Some((sp, fields_a));
                    // the result can be split further: its derivation is the parent's plus this step
                    let mut chain = src.clone();
                    chain.path.push((m, idx));
                    if chain.path.len() > 1 {
                        stats.inc("reach.second_level_split");
                    }
                    b.source = Some(chain);
                } else {
                    b.shown = None;
                    b.source = None;
                    if !b.valid {
                        // cleared list over a stale input: leave it invalid
                    }
                }
            }
            TokOp::Clear { l } => {
                let li = *l % case.n_lists.max(1);
                stats.inc("op.clear");
                let ls = &mut lists[li];
                if let Err(p) = catch(|| ls.list.clear()) {
                    return viol("panic-in-subject", &p.site, oi, json!({"op":"clear","message":p.msg}));
                }
                ls.shown = None;
                ls.source = None;
            }
            TokOp::Reread { l } => {
                let li = *l % case.n_lists.max(1);
                let ls = &mut lists[li];
                if !ls.valid || ls.shown.is_none() {
                    stats.inc("skipped.reread");
                    continue;
                }
                stats.inc("op.reread");
                let (shown, fields) = ls.shown.clone().unwrap();
                let sp = match catch(|| project(&ls.list, fields)) {
                    Ok(p) => p,
                    Err(p) => return viol("panic-in-subject", &p.site, oi, json!({"op":"reread","message":p.msg})),
                };
                if let Some((mi, field, a, b)) = first_diff(&sp, &shown) {
                    return viol("list-changed-after-fill", &field, oi, json!({"morpheme": mi, "now": a, "when_filled": b}));
                }
            }
            TokOp::Sentences { .. } => {}
            TokOp::Lookup { l, query } => {
                let li = *l % case.n_lists.max(1);
                stats.inc("op.lookup");
                history_ops += 1;
                let g = lists[li].group;
                let ls = &mut lists[li];
                let r = catch(|| {
                    ls.list.clear();
                    ls.list.lookup(query, InfoSubset::all())
                });
                let n = match r {
                    Err(p) => return viol("panic-in-subject", &p.site, oi, json!({"op":"lookup","message":p.msg})),
                    Ok(Err(e)) => return viol("outcome-differs-from-fresh", "lookup-failed", oi, json!({"error": format!("{}", e)})),
                    Ok(Ok(n)) => n,
                };
                // lookup rewrites the shared input: other members of the group are stale now
                for (j, o) in lists.iter_mut().enumerate() {
                    if j != li && o.group == g {
                        o.valid = false;
                        o.shown = None;
                    }
                }
                let ls = &mut lists[li];
                ls.valid = true;
                ls.source = None;
                let d = dict.clone();
                let q = query.clone();
                let rr = catch(move || {
                    let mut fl = MorphemeList::empty(d.clone());
                    let n = fl.lookup(&q, InfoSubset::all()).map_err(|e| format!("{}", e))?;
                    Ok::<_, String>((n, project(&fl, InfoSubset::all())))
                });
                let (rn, rproj) = match rr {
                    Ok(Ok(x)) => x,
                    _ => {
                        *stats.unclaimed.entry("C04.lookup-fails-on-fresh".into()).or_insert(0) += 1;
                        return None;
                    }
                };
                let sp = match catch(|| project(&ls.list, InfoSubset::all())) {
                    Ok(p) => p,
                    Err(p) => return viol("panic-in-subject", &p.site, oi, json!({"op":"read-lookup","message":p.msg})),
                };
                probes += 1;
                stats.inc("probe.lookup_compared");
                if n != rn {
                    return viol("result-differs-from-fresh", "lookup.count", oi, json!({"subject": n, "reference": rn}));
                }
                if let Some((mi, field, a, b)) = first_diff(&sp, &rproj) {
                    return viol("result-differs-from-fresh", &format!("lookup.{}", field), oi, json!({"morpheme": mi, "subject": a, "reference": b}));
                }
                ls.shown = Some((sp, InfoSubset::all()));
                let _ = next_group;
            }
        }
    }
    next_group += 0;
    let _ = next_group;
    stats.run_digest = digest;
    if probes > 0 && history_ops > 1 {
        // distinct non-trivial history: at least one compared probe after earlier state-changing ops
        let h = fnv_mix(crate::worldcache::spec_hash(&case.world), fnv1a(serde_json::to_string(&case.ops).unwrap().as_bytes()));
        stats.sigs.insert(h);
    }
    None
}
