//! Simulated wall clock.
//!
//! Defining `clock_gettime` in the binary makes std's `SystemTime::now()` / `Instant::now()` bind
//! to it at link time, so *every* clock read in the process — also in code a later change to the
//! repository adds — sees simulated time on threads that switched the simulation on. Each read
//! advances the clock by the next seeded jump. Threads that did not switch it on (the harness
//! itself) pass through to the real clock via the raw system call.

use std::cell::Cell;

thread_local! {
    static SIM_ON: Cell<bool> = const { Cell::new(false) };
    static SIM_NOW_NS: Cell<u64> = const { Cell::new(0) };
    static SIM_STATE: Cell<u64> = const { Cell::new(0) };
    static SIM_READS: Cell<u64> = const { Cell::new(0) };
    static SIM_MAX_JUMP_S: Cell<u64> = const { Cell::new(1) };
}

fn raw_clock_gettime(clk: libc::clockid_t, ts: *mut libc::timespec) -> libc::c_int {
    unsafe { libc::syscall(libc::SYS_clock_gettime, clk as libc::c_long, ts) as libc::c_int }
}

#[no_mangle]
pub unsafe extern "C" fn clock_gettime(clk: libc::clockid_t, ts: *mut libc::timespec) -> libc::c_int {
    let on = SIM_ON.try_with(|c| c.get()).unwrap_or(false);
    if !on {
        return raw_clock_gettime(clk, ts);
    }
    // splitmix64 step, self-contained so that this function never allocates
    let mut x = SIM_STATE.with(|c| c.get());
    x = x.wrapping_add(0x9E37_79B9_7F4A_7C15);
    SIM_STATE.with(|c| c.set(x));
    let mut z = x;
    z = (z ^ (z >> 30)).wrapping_mul(0xBF58_476D_1CE4_E5B9);
    z = (z ^ (z >> 27)).wrapping_mul(0x94D0_49BB_1331_11EB);
    z ^= z >> 31;
    let max = SIM_MAX_JUMP_S.with(|c| c.get()).max(1);
    let jump_ns = (z % (max * 1_000_000_000)) + 1;
    let now = SIM_NOW_NS.with(|c| {
        let n = c.get().saturating_add(jump_ns);
        c.set(n);
        n
    });
    SIM_READS.with(|c| c.set(c.get() + 1));
    if !ts.is_null() {
        (*ts).tv_sec = (now / 1_000_000_000) as libc::time_t;
        (*ts).tv_nsec = (now % 1_000_000_000) as libc::c_long;
    }
    0
}

/// Switch the simulated clock on for the calling thread.
pub fn sim_on(start_s: u64, seed: u64, max_jump_s: u64) {
    SIM_NOW_NS.with(|c| c.set(start_s * 1_000_000_000));
    SIM_STATE.with(|c| c.set(seed));
    SIM_READS.with(|c| c.set(0));
    SIM_MAX_JUMP_S.with(|c| c.set(max_jump_s));
    SIM_ON.with(|c| c.set(true));
}

/// Switch it off; returns (clock reads served, simulated seconds now)
pub fn sim_off() -> (u64, u64) {
    SIM_ON.with(|c| c.set(false));
    (SIM_READS.with(|c| c.get()), SIM_NOW_NS.with(|c| c.get()) / 1_000_000_000)
}

/// Real monotonic seconds (harness bookkeeping only; never influences a run)
pub fn real_now() -> f64 {
    let mut ts = libc::timespec { tv_sec: 0, tv_nsec: 0 };
    raw_clock_gettime(libc::CLOCK_MONOTONIC, &mut ts);
    ts.tv_sec as f64 + ts.tv_nsec as f64 * 1e-9
}

/// raw nanoseconds of an arbitrary clock id (used by the watchdog for per-thread CPU time)
pub fn raw_ns(clk: libc::clockid_t) -> u64 {
    let mut ts = libc::timespec { tv_sec: 0, tv_nsec: 0 };
    raw_clock_gettime(clk, &mut ts);
    ts.tv_sec as u64 * 1_000_000_000 + ts.tv_nsec as u64
}
