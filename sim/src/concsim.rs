//! ConcSim (C18): one loaded dictionary shared by concurrent tokenizers.
//!
//! Real OS threads, each with its own tokenizer and lists over ONE shared `JapaneseDictionary`,
//! are released one at a time by a seeded baton scheduler at every wrapper-plugin entry/exit and
//! every API-call boundary. Exactly one thread is runnable at any moment and the choice sequence
//! is the schedule: recorded, replayed verbatim, minimised. Oracle: every thread's observations
//! equal those of the same operation list executed alone on a pristine, separately loaded
//! dictionary, and the shared dictionary's observable state is unchanged after the run.

use crate::dictfac::{load_dict, make_config, write_resources};
use crate::harness::{catch, Engine, Stats, Violation};
use crate::proj::{first_diff, project, ListProj};
use crate::rng::{fnv1a, fnv_mix, Rng};
use crate::simdict::{SimDict, Yielder};
use crate::toksim::{gen_ops, mode_of, TokOp};
use crate::world::{gen_text, gen_world, WorldGenOpts, WorldSpec};
use crate::worldcache::get_world;
use serde::{Deserialize, Serialize};
use serde_json::{json, Value};
use std::path::Path;
use std::sync::{Arc, Condvar, Mutex};
use sudachi::analysis::mlist::MorphemeList;
use sudachi::analysis::stateful_tokenizer::StatefulTokenizer;
use sudachi::analysis::stateless_tokenizer::DictionaryAccess;
use sudachi::analysis::Mode;
use sudachi::dic::dictionary::JapaneseDictionary;
use sudachi::dic::storage::Storage;
use sudachi::dic::subset::InfoSubset;
use sudachi::dic::word_id::WordId;
use sudachi::sentence_splitter::{SentenceSplitter, SplitSentences};

#[derive(Clone, Debug, Serialize, Deserialize, PartialEq)]
#[serde(tag = "strategy", rename_all = "snake_case")]
pub enum Schedule {
    Random { seed: u64 },
    /// PCT-style: random priorities, `depth` priority change points
    Pct { seed: u64, depth: usize },
    /// replay: thread chosen at each scheduling point (fallback: lowest runnable id)
    Explicit { choices: Vec<u8> },
}

#[derive(Clone, Debug, Serialize, Deserialize)]
pub struct ConcCase {
    pub world: WorldSpec,
    pub n_lists: usize,
    pub threads: Vec<Vec<TokOp>>,
    pub schedule: Schedule,
    /// what happens to the resource files (char.def, unk.def, rewrite.def) once the shared dictionary is loaded:
    /// "keep" | "remove" | "garbage". A loaded dictionary must not look at them again.
    #[serde(default)]
    pub resources_after_load: String,
    /// dictionary life cycle on the long-lived thread: before anything else that thread loads a *decoy* dictionary
    /// (same files, same plugin classes, other plugin parameters), analyses a text with it and drops it
    #[serde(default)]
    pub decoy: bool,
}

#[derive(Clone, Debug, PartialEq, Serialize, Deserialize)]
pub enum Obs {
    Skip,
    Unit,
    Analyse { class: u8, fired: bool, err: String },
    List(ListProj),
    Split { did: bool, list: ListProj },
    Sentences(Vec<(usize, usize)>),
    Panic { site: String, msg: String },
}

// ------------------------------------------------------------------------------------------
// baton

struct BState {
    granted: Option<usize>,
    parked: Vec<bool>,
    finished: Vec<bool>,
    points: u64,
}

pub struct Baton {
    m: Mutex<BState>,
    cv: Condvar,
}

impl Baton {
    fn new(n: usize) -> Baton {
        Baton { m: Mutex::new(BState { granted: None, parked: vec![false; n], finished: vec![false; n], points: 0 }), cv: Condvar::new() }
    }
    fn park(&self, tid: usize) {
        let mut g = self.m.lock().unwrap();
        g.parked[tid] = true;
        g.points += 1;
        if g.granted == Some(tid) {
            g.granted = None;
        }
        self.cv.notify_all();
        while g.granted != Some(tid) {
            g = self.cv.wait(g).unwrap();
        }
        g.parked[tid] = false;
    }
    fn finish(&self, tid: usize) {
        let mut g = self.m.lock().unwrap();
        g.finished[tid] = true;
        if g.granted == Some(tid) {
            g.granted = None;
        }
        self.cv.notify_all();
    }
}

struct ThreadYielder {
    baton: Arc<Baton>,
    tid: usize,
}

impl Yielder for ThreadYielder {
    fn point(&self, _kind: u8) {
        self.baton.park(self.tid);
    }
}

// ------------------------------------------------------------------------------------------
// per-thread executor (used for the sequential baseline and inside the scheduled threads)

struct LState {
    list: MorphemeList<Arc<SimDict>>,
    valid: bool,
    group: usize,
    filled: bool,
}

pub fn run_ops(dict: &Arc<JapaneseDictionary>, ops: &[TokOp], n_lists: usize, yielder: Option<Arc<dyn Yielder>>) -> (Vec<Obs>, u64) {
    let sim = Arc::new(SimDict::new(dict.clone()));
    let api_point = |y: &Option<Arc<dyn Yielder>>| {
        if let Some(y) = y {
            y.point(0);
        }
    };
    sim.ctl.set_yielder(yielder.clone());
    let mut tok = StatefulTokenizer::create(sim.clone(), false, Mode::C);
    let mut lists: Vec<LState> = (0..n_lists.max(1))
        .map(|i| LState { list: MorphemeList::empty(sim.clone()), valid: true, group: i, filled: false })
        .collect();
    let mut pending = None;
    let mut ready = false;
    let mut out = Vec::with_capacity(ops.len());
    for op in ops {
        api_point(&yielder);
        let obs = match op {
            TokOp::SetMode { mode, .. } => {
                tok.set_mode(mode_of(mode));
                Obs::Unit
            }
            TokOp::SetSubset { bits, .. } => {
                tok.set_subset(InfoSubset::from_bits_truncate(*bits));
                Obs::Unit
            }
            TokOp::SetDebug { .. } => Obs::Unit,
            TokOp::CollectHeld { .. } => Obs::Unit,
            TokOp::Arm { fault, .. } => {
                pending = Some(fault.clone());
                Obs::Unit
            }
            TokOp::Analyse { text, .. } => {
                sim.ctl.arm(pending.take());
                ready = false;
                let r = catch(|| {
                    tok.reset().push_str(text);
                    tok.do_tokenize()
                });
                let fired = sim.ctl.fired() > 0;
                sim.ctl.arm(None);
                match r {
                    Err(p) => {
                        out.push(Obs::Panic { site: p.site, msg: p.msg });
                        break;
                    }
                    Ok(Err(e)) => Obs::Analyse { class: 1, fired, err: format!("{}", e) },
                    Ok(Ok(())) => {
                        ready = true;
                        Obs::Analyse { class: 0, fired, err: String::new() }
                    }
                }
            }
            TokOp::Collect { l, .. } => {
                if !ready {
                    Obs::Skip
                } else {
                    ready = false;
                    let li = *l % lists.len();
                    let r = catch(|| lists[li].list.collect_results(&mut tok));
                    match r {
                        Err(p) => {
                            out.push(Obs::Panic { site: p.site, msg: p.msg });
                            break;
                        }
                        Ok(Err(e)) => Obs::Analyse { class: 3, fired: false, err: format!("{}", e) },
                        Ok(Ok(())) => {
                            let g = lists[li].group;
                            for (j, o) in lists.iter_mut().enumerate() {
                                if j != li && o.group == g {
                                    o.valid = false;
                                }
                            }
                            lists[li].valid = true;
                            lists[li].filled = true;
                            let f = lists[li].list.subset();
                            match catch(|| project(&lists[li].list, f)) {
                                Ok(p) => Obs::List(p),
                                Err(p) => {
                                    out.push(Obs::Panic { site: p.site, msg: p.msg });
                                    break;
                                }
                            }
                        }
                    }
                }
            }
            TokOp::SplitInto { l, idx, mode, out: o } => {
                let li = *l % lists.len();
                let oi = *o % lists.len();
                let m = mode_of(mode);
                if li == oi || !lists[li].valid || !lists[li].filled || lists[li].list.len() == 0 || m == Mode::C {
                    Obs::Skip
                } else {
                    let idx = *idx % lists[li].list.len();
                    let (a, b) = if li < oi {
                        let (x, y) = lists.split_at_mut(oi);
                        (&mut x[li], &mut y[0])
                    } else {
                        let (x, y) = lists.split_at_mut(li);
                        (&mut y[0], &mut x[oi])
                    };
                    let r = catch(|| {
                        b.list.clear();
                        a.list.split_into(m, idx, &mut b.list)
                    });
                    match r {
                        Err(p) => {
                            out.push(Obs::Panic { site: p.site, msg: p.msg });
                            break;
                        }
                        Ok(Err(e)) => Obs::Analyse { class: 4, fired: false, err: format!("{}", e) },
                        Ok(Ok(did)) => {
                            if did {
                                b.group = a.group;
                                b.valid = true;
                                b.filled = false;
                            }
                            let f = a.list.subset();
                            match catch(|| project(&b.list, f)) {
                                Ok(p) => Obs::Split { did, list: p },
                                Err(p) => {
                                    out.push(Obs::Panic { site: p.site, msg: p.msg });
                                    break;
                                }
                            }
                        }
                    }
                }
            }
            TokOp::Clear { l } => {
                let li = *l % lists.len();
                lists[li].list.clear();
                lists[li].filled = false;
                Obs::Unit
            }
            TokOp::Reread { l } => {
                let li = *l % lists.len();
                if !lists[li].valid || !lists[li].filled {
                    Obs::Skip
                } else {
                    let f = lists[li].list.subset();
                    match catch(|| project(&lists[li].list, f)) {
                        Ok(p) => Obs::List(p),
                        Err(p) => {
                            out.push(Obs::Panic { site: p.site, msg: p.msg });
                            break;
                        }
                    }
                }
            }
            TokOp::Lookup { l, query } => {
                let li = *l % lists.len();
                let g = lists[li].group;
                let r = catch(|| {
                    lists[li].list.clear();
                    lists[li].list.lookup(query, InfoSubset::all())
                });
                for (j, o) in lists.iter_mut().enumerate() {
                    if j != li && o.group == g {
                        o.valid = false;
                    }
                }
                lists[li].valid = true;
                lists[li].filled = false;
                match r {
                    Err(p) => {
                        out.push(Obs::Panic { site: p.site, msg: p.msg });
                        break;
                    }
                    Ok(Err(e)) => Obs::Analyse { class: 5, fired: false, err: format!("{}", e) },
                    Ok(Ok(_)) => match catch(|| project(&lists[li].list, InfoSubset::all())) {
                        Ok(p) => Obs::List(p),
                        Err(p) => {
                            out.push(Obs::Panic { site: p.site, msg: p.msg });
                            break;
                        }
                    },
                }
            }
            TokOp::Sentences { text } => {
                let d = dict.clone();
                let y = yielder.clone();
                let r = catch(move || {
                    let sp = SentenceSplitter::with_limit(64).with_checker(d.lexicon());
                    let mut v = vec![];
                    for (r, _s) in sp.split(text) {
                        v.push((r.start, r.end));
                        if let Some(y) = &y {
                            y.point(7);
                        }
                        if v.len() > 10_000 {
                            break;
                        }
                    }
                    v
                });
                match r {
                    Ok(v) => Obs::Sentences(v),
                    Err(p) => {
                        out.push(Obs::Panic { site: p.site, msg: p.msg });
                        break;
                    }
                }
            }
        };
        out.push(obs);
    }
    let pts = sim.ctl.points.load(std::sync::atomic::Ordering::SeqCst);
    sim.ctl.set_yielder(None);
    (out, pts)
}

/// observable state of a loaded dictionary through its public API
pub fn dict_digest(d: &JapaneseDictionary) -> Vec<(String, u64)> {
    let mut parts = vec![];
    let g = d.grammar();
    let mut h = fnv1a(b"pos");
    for p in g.pos_list.iter() {
        for s in p {
            h = fnv_mix(h, fnv1a(s.as_bytes()));
        }
    }
    parts.push(("pos_list".to_string(), h));
    let m = g.conn_matrix();
    let mut h = fnv1a(b"conn");
    for l in 0..m.num_left() {
        for r in 0..m.num_right() {
            h = fnv_mix(h, m.cost(l as u16, r as u16) as u16 as u64);
        }
    }
    parts.push(("connection_matrix".to_string(), h));
    let lex = d.lexicon();
    let mut hp = fnv1a(b"params");
    let mut hi = fnv1a(b"infos");
    // words of every lexicon: walk ids until the first failure per dictionary
    for dic in 0..15u8 {
        let mut i = 0u32;
        loop {
            let wid = WordId::new(dic, i);
            let r = catch(|| lex.get_word_info(wid).ok().map(|wi| {
                let mut h = fnv1a(wi.surface().as_bytes());
                h = fnv_mix(h, wi.head_word_length() as u64);
                h = fnv_mix(h, wi.pos_id() as u64);
                h = fnv_mix(h, fnv1a(wi.normalized_form().as_bytes()));
                h = fnv_mix(h, fnv1a(wi.dictionary_form().as_bytes()));
                h = fnv_mix(h, fnv1a(wi.reading_form().as_bytes()));
                for w in wi.a_unit_split().iter().chain(wi.b_unit_split()).chain(wi.word_structure()) {
                    h = fnv_mix(h, w.as_raw() as u64);
                }
                for s in wi.synonym_group_ids() {
                    h = fnv_mix(h, *s as u64);
                }
                (h, lex.get_word_param(wid))
            }));
            match r {
                Ok(Some((h, (a, b, c)))) => {
                    hi = fnv_mix(hi, h);
                    hp = fnv_mix(fnv_mix(fnv_mix(hp, a as u16 as u64), b as u16 as u64), c as u16 as u64);
                }
                _ => break,
            }
            i += 1;
            if i > 100_000 {
                break;
            }
        }
        if i == 0 {
            break;
        }
    }
    parts.push(("word_params".to_string(), hp));
    parts.push(("word_infos".to_string(), hi));
    parts
}

pub struct ConcSim;

fn viol(class: &str, site: &str, op_index: usize, detail: Value) -> Option<Violation> {
    Some(Violation { class: class.to_string(), site: site.to_string(), op_index, detail })
}

impl Engine for ConcSim {
    type Case = ConcCase;
    fn name(&self) -> &'static str {
        "concsim"
    }
    fn property(&self) -> &'static str {
        "C18"
    }
    fn chunk(&self) -> u64 {
        16
    }
    fn cpu_budget_s(&self) -> u64 {
        30
    }

    fn generate(&self, seed: u64, run: u64) -> ConcCase {
        let mut wr = Rng::derive(seed, "concsim/world", run / self.chunk());
        let opts = WorldGenOpts { max_users: 2, max_rows: 40, full_plugins: wr.chance(1, 2) };
        let (world, _) = gen_world(&mut wr, &opts);
        let mut rng = Rng::derive(seed, "concsim/ops", run);
        let nt = 2 + rng.below(3);
        let n_lists = 1 + rng.below(3);
        let mut threads = vec![];
        for _ in 0..nt {
            let steps = 2 + rng.below(7);
            let mut ops = gen_ops(&mut rng, &world, 1, n_lists, steps, false);
            if rng.chance(1, 3) {
                let mut t = gen_text(&mut rng, &world.keys);
                t.push_str("。");
                t.push_str(&gen_text(&mut rng, &world.keys));
                let at = rng.below(ops.len() + 1);
                ops.insert(at, TokOp::Sentences { text: t });
            }
            threads.push(ops);
        }
        let schedule = match rng.below(4) {
            0 | 1 => Schedule::Random { seed: rng.next_u64() },
            _ => Schedule::Pct { seed: rng.next_u64(), depth: 1 + rng.below(3) },
        };
        let resources_after_load = ["keep", "keep", "keep", "remove", "remove", "garbage"][rng.below(6)].to_string();
        // every thread meets runs of every kind of prolonged sound mark / bracket once
        if rng.chance(1, 2) {
            for ops in threads.iter_mut() {
                let at = rng.below(ops.len() + 1);
                ops.insert(at, TokOp::Analyse { t: 0, text: DECOY_PROBE.to_string() });
                ops.insert(at + 1, TokOp::Collect { t: 0, l: 0 });
            }
        }
        let decoy = rng.chance(1, 2);
        ConcCase { world, n_lists, threads, schedule, resources_after_load, decoy }
    }

    fn execute(&self, case: &ConcCase, stats: &mut Stats, work: &Path) -> Option<Violation> {
        execute(case, stats, work)
    }

    fn shrink(&self, case: &ConcCase, v: &Violation) -> Vec<ConcCase> {
        let mut out = vec![];
        // pin the schedule that failed
        if let Some(ch) = v.detail.get("schedule").and_then(|c| c.as_array()) {
            let choices: Vec<u8> = ch.iter().map(|x| x.as_u64().unwrap_or(0) as u8).collect();
            let pinned = Schedule::Explicit { choices };
            if case.schedule != pinned {
                let mut c = case.clone();
                c.schedule = pinned;
                out.push(c);
            }
        }
        // drop whole threads (keep >= 2 unless the violation is not about interleaving)
        if case.threads.len() > 1 {
            for t in 0..case.threads.len() {
                let mut c = case.clone();
                c.threads.remove(t);
                if let Schedule::Explicit { choices } = &mut c.schedule {
                    choices.retain(|x| *x as usize != t);
                    for x in choices.iter_mut() {
                        if (*x as usize) > t {
                            *x -= 1;
                        }
                    }
                }
                out.push(c);
            }
        }
        // drop ops
        for t in 0..case.threads.len() {
            let n = case.threads[t].len();
            let mut size = n / 2;
            while size >= 1 {
                let mut start = 0;
                while start < n {
                    let end = (start + size).min(n);
                    let mut c = case.clone();
                    c.threads[t].drain(start..end);
                    out.push(c);
                    start += size;
                }
                size /= 2;
            }
        }
        // simplify the schedule: replace a choice by "stay on the previous thread", drop tail
        if let Schedule::Explicit { choices } = &case.schedule {
            let n = choices.len();
            if n > 0 {
                let mut c = case.clone();
                c.schedule = Schedule::Explicit { choices: choices[..n / 2].to_vec() };
                out.push(c);
            }
            for i in (1..n).rev() {
                if choices[i] != choices[i - 1] {
                    let mut c = case.clone();
                    let mut ch = choices.clone();
                    ch.remove(i);
                    c.schedule = Schedule::Explicit { choices: ch };
                    out.push(c);
                }
            }
        }
        // shorten texts
        for t in 0..case.threads.len() {
            for (i, op) in case.threads[t].iter().enumerate() {
                if let TokOp::Analyse { t: tt, text } = op {
                    let chars: Vec<char> = text.chars().collect();
                    let k = chars.len();
                    if k > 1 {
                        for (a, b) in [(0, k / 2), (k / 2, k)] {
                            let mut c = case.clone();
                            c.threads[t][i] = TokOp::Analyse { t: *tt, text: chars[a..b].iter().collect() };
                            out.push(c);
                        }
                    }
                }
            }
        }
        // world
        for u in 0..case.world.user_csv.len() {
            let mut c = case.clone();
            c.world.user_csv.remove(u);
            out.push(c);
        }
        for key in ["inputTextPlugin", "pathRewritePlugin", "connectionCostPlugin", "oovProviderPlugin"] {
            if let Some(arr) = case.world.config[key].as_array() {
                let min = if key == "oovProviderPlugin" { 1 } else { 0 };
                if arr.len() > min {
                    for j in 0..arr.len() {
                        let mut c = case.clone();
                        c.world.config[key].as_array_mut().unwrap().remove(j);
                        out.push(c);
                    }
                }
            }
        }
        out
    }

    fn sample(&self, case: &ConcCase) -> Value {
        json!({"threads": case.threads.iter().map(|t| t.iter().map(|o| {
                    let mut v = serde_json::to_value(o).unwrap();
                    if let Some(t) = v.get("text").and_then(|t| t.as_str()) { if t.len() > 80 { v["text"] = json!(format!("<{} bytes>", t.len())); } }
                    v }).collect::<Vec<_>>()).collect::<Vec<_>>(),
               "schedule": case.schedule, "plugins": case.world.config, "user_dicts": case.world.user_csv.len()})
    }
}

const DECOY_PROBE: &str = "アーー〜〜カ--~~〰〰東京(とう)京【か】[き]ab-12zzz";

/// the world's configuration with the same plugin classes but other parameters
fn decoy_config(cfg: &serde_json::Value) -> serde_json::Value {
    let mut c = cfg.clone();
    if let Some(arr) = c["inputTextPlugin"].as_array_mut() {
        for p in arr.iter_mut() {
            let class = p["class"].as_str().unwrap_or("").to_string();
            if class.ends_with("ProlongedSoundMarkPlugin") {
                let has_long = p["prolongedSoundMarks"].as_array().map(|a| a.iter().any(|x| x == "ー")).unwrap_or(false);
                if has_long {
                    p["prolongedSoundMarks"] = json!(["-", "~"]);
                    p["replacementSymbol"] = json!("-");
                } else {
                    p["prolongedSoundMarks"] = json!(["ー", "〜", "〰"]);
                    p["replacementSymbol"] = json!("ー");
                }
            }
            if class.ends_with("IgnoreYomiganaPlugin") {
                let wide = p["leftBrackets"].as_array().map(|a| a.len() > 2).unwrap_or(false);
                if wide {
                    p["leftBrackets"] = json!(["（"]);
                    p["rightBrackets"] = json!(["）"]);
                } else {
                    p["leftBrackets"] = json!(["(", "（", "[", "【"]);
                    p["rightBrackets"] = json!([")", "）", "]", "】"]);
                }
                p["maxYomiganaLength"] = json!(if p["maxYomiganaLength"].as_u64().unwrap_or(4) >= 3 { 1 } else { 4 });
            }
        }
    }
    if let Some(arr) = c["oovProviderPlugin"].as_array_mut() {
        for p in arr.iter_mut() {
            if p["class"].as_str().unwrap_or("").ends_with("RegexOovProvider") {
                p["regex"] = json!(if p["regex"] == "z+" { "[a-z0-9]+(-[a-z0-9]+)*" } else { "z+" });
            }
        }
    }
    if let Some(arr) = c["pathRewritePlugin"].as_array_mut() {
        for p in arr.iter_mut() {
            if p["class"].as_str().unwrap_or("").ends_with("JoinKatakanaOovPlugin") {
                p["minLength"] = json!(if p["minLength"].as_u64().unwrap_or(1) >= 3 { 1 } else { 4 });
            }
            if p["class"].as_str().unwrap_or("").ends_with("JoinNumericPlugin") {
                p["enableNormalize"] = json!(!p["enableNormalize"].as_bool().unwrap_or(true));
            }
        }
    }
    c
}

pub fn execute(case: &ConcCase, stats: &mut Stats, work: &Path) -> Option<Violation> {
    // compiled bytes come from the per-thread world cache; dictionaries are loaded freshly so that
    // every lazily initialised piece of state is first touched *inside* the scheduled threads
    let world = match get_world(&case.world, work) {
        Ok(w) => w,
        Err(e) => {
            stats.inc("world_build_failed");
            if stats.counters["world_build_failed"] <= 1 && !crate::harness::minimising() {
                eprintln!("concsim: world build failed: {}", e);
            }
            return None;
        }
    };
    let fresh = |tag: &str| -> Result<Arc<JapaneseDictionary>, String> {
        let _ = tag;
        write_resources(&case.world, &world.dir)?;
        let cfg = make_config(&case.world, &world.dir)?;
        let r = catch(|| {
            load_dict(&cfg, Storage::Owned(world.sys_bytes.clone()), world.user_bytes.iter().map(|b| Storage::Owned(b.clone())).collect())
        });
        match r {
            Ok(Ok(d)) => Ok(Arc::new(d)),
            Ok(Err(e)) => Err(e),
            Err(p) => Err(format!("panic {} {}", p.site, p.msg)),
        }
    };
    if case.decoy {
        // this (long-lived) thread has used another dictionary before: loaded, used and dropped right here, so that the
        // dictionaries loaded next are likely to occupy the very same addresses
        let mut spec2 = case.world.clone();
        spec2.config = decoy_config(&case.world.config);
        let r = catch(|| -> Result<(), String> {
            write_resources(&spec2, &world.dir)?;
            let cfg = make_config(&spec2, &world.dir)?;
            let d = Arc::new(load_dict(&cfg, Storage::Owned(world.sys_bytes.clone()), world.user_bytes.iter().map(|b| Storage::Owned(b.clone())).collect())?);
            let _ = run_ops(&d, &[TokOp::Analyse { t: 0, text: DECOY_PROBE.to_string() }, TokOp::Collect { t: 0, l: 0 }], 1, None);
            Ok(())
        });
        match r {
            Ok(Ok(())) => stats.inc("fault.decoy_dictionary_used_and_dropped"),
            _ => stats.inc("decoy_dictionary_not_loadable"),
        }
    }
    let (base, shared) = match (fresh("base"), fresh("shared")) {
        (Ok(a), Ok(b)) => (a, b),
        _ => {
            stats.inc("world_build_failed");
            return None;
        }
    };
    let nt = case.threads.len();
    if nt == 0 {
        return None;
    }
    // 1. sequential baseline on the pristine dictionary
    crate::harness::set_phase(1);
    let mut baseline = vec![];
    let mut total_points = 0u64;
    for ops in &case.threads {
        let (obs, pts) = run_ops(&base, ops, case.n_lists, None);
        total_points += pts + ops.len() as u64;
        baseline.push(obs);
    }
    crate::harness::set_phase(0);
    let before = dict_digest(&shared);
    // environment fault: the files the dictionary was configured from disappear / turn into garbage after loading
    match case.resources_after_load.as_str() {
        "remove" => {
            for f in ["char.def", "unk.def", "rewrite.def"] {
                let _ = std::fs::remove_file(world.dir.join(f));
            }
            stats.inc("fault.resources_removed_after_load");
        }
        "garbage" => {
            for f in ["char.def", "unk.def", "rewrite.def"] {
                let _ = std::fs::write(world.dir.join(f), b"\xff\xfe\x00 not a definition file\n0x3041 .. GARBAGE\n");
            }
            stats.inc("fault.resources_garbled_after_load");
        }
        _ => {}
    }

    // 2. scheduled concurrent execution on the shared dictionary
    let baton = Arc::new(Baton::new(nt));
    let results: Arc<Mutex<Vec<Option<Vec<Obs>>>>> = Arc::new(Mutex::new(vec![None; nt]));
    let mut handles = vec![];
    let ktids: Arc<Vec<std::sync::atomic::AtomicI64>> = Arc::new((0..nt).map(|_| std::sync::atomic::AtomicI64::new(0)).collect());
    for tid in 0..nt {
        let ops = case.threads[tid].clone();
        let baton2 = baton.clone();
        let shared2 = shared.clone();
        let results2 = results.clone();
        let n_lists = case.n_lists;
        let ktids2 = ktids.clone();
        let h = std::thread::Builder::new().stack_size(64 << 20).spawn(move || {
            ktids2[tid].store(unsafe { libc::syscall(libc::SYS_gettid) } as i64, std::sync::atomic::Ordering::SeqCst);
            let y: Arc<dyn Yielder> = Arc::new(ThreadYielder { baton: baton2.clone(), tid });
            baton2.park(tid); // wait for the first grant
            let r = catch(|| run_ops(&shared2, &ops, n_lists, Some(y)));
            let obs = match r {
                Ok((o, _)) => o,
                Err(p) => vec![Obs::Panic { site: p.site, msg: p.msg }],
            };
            results2.lock().unwrap()[tid] = Some(obs);
            baton2.finish(tid);
        });
        handles.push(h.expect("spawn"));
    }
    // controller
    let mut choices: Vec<u8> = vec![];
    let mut switches = 0u64;
    let mut last: Option<usize> = None;
    let (mut rng, mut prio, mut change_points): (Rng, Vec<u64>, Vec<u64>) = match &case.schedule {
        Schedule::Random { seed } => (Rng::new(*seed), vec![], vec![]),
        Schedule::Pct { seed, depth } => {
            let mut r = Rng::new(*seed);
            let prio: Vec<u64> = (0..nt).map(|_| 1000 + r.below(1000) as u64).collect();
            let k = total_points.max(1);
            let cps: Vec<u64> = (0..*depth).map(|_| r.below(k as usize) as u64).collect();
            (r, prio, cps)
        }
        Schedule::Explicit { .. } => (Rng::new(0), vec![], vec![]),
    };
    change_points.sort();
    let mut step: u64 = 0;
    let mut deadlock = false;
    let mut spinning = false;
    let ptids: Vec<libc::pthread_t> = {
        use std::os::unix::thread::JoinHandleExt;
        handles.iter().map(|h| h.as_pthread_t()).collect()
    };
    loop {
        let mut g = baton.m.lock().unwrap();
        // wait until nobody holds the baton and every live thread is parked
        let t0 = crate::clock::real_now();
        // CPU time of the thread that holds the baton: a spinning thread is recognised by what it burns,
        // a blocked one by the wall clock
        let holder_cpu0 = last.and_then(|l| crate::harness::thread_cpu_ns(ptids[l]));
        let mut blocked_since: Option<f64> = None;
        loop {
            let quiescent = g.granted.is_none() && (0..nt).all(|t| g.parked[t] || g.finished[t]);
            if quiescent {
                break;
            }
            let (g2, _to) = baton.cv.wait_timeout(g, std::time::Duration::from_millis(200)).unwrap();
            g = g2;
            if let (Some(l), Some(c0)) = (last, holder_cpu0) {
                if let Some(c1) = crate::harness::thread_cpu_ns(ptids[l]) {
                    if c1.saturating_sub(c0) > 20_000_000_000 {
                        deadlock = true;
                        spinning = true;
                        break;
                    }
                }
            }
            // wall-clock time alone decides nothing (other load may starve a runnable thread): the holder of the baton must
            // have been *asleep* for 30 s (hard cap 30 min)
            match g.granted.map(|t| ktids[t].load(std::sync::atomic::Ordering::SeqCst)).filter(|k| *k != 0).and_then(crate::harness::thread_state) {
                Some('S') | Some('D') => {
                    if blocked_since.is_none() {
                        blocked_since = Some(crate::clock::real_now());
                    }
                }
                _ => blocked_since = None,
            }
            if blocked_since.map(|b| crate::clock::real_now() - b > 30.0).unwrap_or(false) || crate::clock::real_now() - t0 > 1800.0 {
                deadlock = true;
                break;
            }
        }
        if deadlock {
            break;
        }
        let runnable: Vec<usize> = (0..nt).filter(|t| g.parked[*t] && !g.finished[*t]).collect();
        if runnable.is_empty() {
            break;
        }
        let pick = match &case.schedule {
            Schedule::Random { .. } => {
                // mostly uniform, sometimes sticky to make long uninterrupted stretches too
                if let (Some(l), true) = (last, rng.chance(1, 4)) {
                    if runnable.contains(&l) { l } else { *rng.pick(&runnable) }
                } else {
                    *rng.pick(&runnable)
                }
            }
            Schedule::Pct { .. } => {
                if change_points.first().map(|c| *c <= step).unwrap_or(false) {
                    change_points.remove(0);
                    if let Some(l) = last {
                        prio[l] = step; // below every initial priority
                    }
                }
                *runnable.iter().max_by_key(|t| prio[**t]).unwrap()
            }
            Schedule::Explicit { choices: ch } => {
                let want = ch.get(step as usize).map(|x| *x as usize);
                match want {
                    Some(w) if runnable.contains(&w) => w,
                    _ => match last {
                        Some(l) if runnable.contains(&l) => l,
                        _ => runnable[0],
                    },
                }
            }
        };
        if last.is_some() && last != Some(pick) {
            switches += 1;
        }
        last = Some(pick);
        choices.push(pick as u8);
        step += 1;
        g.granted = Some(pick);
        baton.cv.notify_all();
        drop(g);
    }
    if deadlock {
        // threads are stuck; we cannot join them. Report and let the process exit path handle it.
        let v = Violation {
            class: "no-progress".into(),
            site: if spinning { "thread-spins".into() } else { "baton-wait-timeout".into() },
            op_index: 0,
            detail: json!({"schedule": choices, "resources_after_load": case.resources_after_load,
                           "note": "a scheduled thread neither reached a sim point nor finished (20 s of its own CPU time, or asleep for 30 s)"}),
        };
        crate::harness::abort_batch(v);
    }
    for h in handles {
        let _ = h.join();
    }
    let after = dict_digest(&shared);
    stats.add("sched.points", step);
    stats.add("sched.context_switches", switches);
    stats.inc(&format!("sched.threads.{}", nt));
    stats.inc(match &case.schedule {
        Schedule::Random { .. } => "sched.strategy.random",
        Schedule::Pct { .. } => "sched.strategy.pct",
        Schedule::Explicit { .. } => "sched.strategy.explicit",
    });
    let sched_hash = fnv1a(&choices);
    stats.sigs2.insert(fnv_mix(sched_hash, crate::worldcache::spec_hash(&case.world)));
    let results = results.lock().unwrap();
    let mut digest = fnv1a(b"concsim");
    for tid in 0..nt {
        let got = match &results[tid] {
            Some(o) => o,
            None => return viol("thread-lost", "no-result", 0, json!({"thread": tid, "schedule": choices})),
        };
        digest = fnv_mix(digest, fnv1a(serde_json::to_string(got).unwrap().as_bytes()));
        let exp = &baseline[tid];
        let n = got.len().min(exp.len());
        for i in 0..n {
            if got[i] != exp[i] {
                // classify
                let (class, site, detail) = match (&got[i], &exp[i]) {
                    (Obs::Panic { site, msg }, e) => {
                        if let Obs::Panic { .. } = e {
                            ("result-differs-from-sequential".to_string(), "panic-site".to_string(), json!({"got": got[i], "expected": e}))
                        } else {
                            ("panic-in-subject".to_string(), site.clone(), json!({"message": msg}))
                        }
                    }
                    (Obs::List(a), Obs::List(b)) | (Obs::Split { list: a, .. }, Obs::Split { list: b, .. }) => {
                        let d = first_diff(a, b);
                        match d {
                            Some((mi, field, x, y)) => ("result-differs-from-sequential".to_string(), field.clone(), json!({"morpheme": mi, "field": field, "concurrent": x, "sequential": y})),
                            None => ("result-differs-from-sequential".to_string(), "split.returned".to_string(), json!({"got": got[i], "expected": exp[i]})),
                        }
                    }
                    (a, b) => ("result-differs-from-sequential".to_string(), "outcome".to_string(), json!({"concurrent": a, "sequential": b})),
                };
                let mut detail = detail;
                detail["thread"] = json!(tid);
                detail["schedule"] = json!(choices);
                return viol(&class, &site, i, detail);
            }
        }
        if got.len() != exp.len() {
            return viol("result-differs-from-sequential", "op-count", n, json!({"thread": tid, "concurrent": got.len(), "sequential": exp.len(), "schedule": choices}));
        }
        stats.add("ops", got.len() as u64);
        stats.add("probe.compared", got.iter().filter(|o| matches!(o, Obs::List(_) | Obs::Split { .. } | Obs::Sentences(_))).count() as u64);
    }
    for (a, b) in before.iter().zip(after.iter()) {
        if a != b {
            return viol("dictionary-digest-changed", &a.0, 0, json!({"part": a.0, "schedule": choices}));
        }
    }
    stats.run_digest = fnv_mix(digest, sched_hash);
    if switches > 0 {
        stats.sigs.insert(fnv_mix(sched_hash, fnv1a(serde_json::to_string(&case.threads).unwrap().as_bytes())));
    }
    None
}
