//! Independent reader/validator of the binary dictionary format, written from the format
//! description (docs + the layout the writer documents), NOT using the repository's readers.
//! Used by BuildSim as the "is what was reported as success a valid dictionary" oracle.

#[derive(Debug, Clone)]
pub struct Info {
    pub headword: String,
    pub head_len: usize,
    pub pos_id: u16,
    pub norm: String,
    pub dic_form: i32,
    pub reading: String,
    pub a: Vec<u32>,
    pub b: Vec<u32>,
    pub ws: Vec<u32>,
    pub syn: Vec<u32>,
}

#[derive(Debug, Clone)]
pub struct ParsedDic {
    pub is_user: bool,
    pub version: u64,
    pub time: u64,
    pub desc: String,
    pub pos: Vec<Vec<String>>,
    pub num_left: i16,
    pub num_right: i16,
    pub matrix_off: usize,
    pub trie_units: usize,
    pub wid_table_off: usize,
    pub wid_table_len: usize,
    pub n: usize,
    pub params: Vec<(i16, i16, i16)>,
    pub infos: Vec<Info>,
    pub sections: Vec<(&'static str, usize)>,
}

pub const SYSTEM_V1: u64 = 0x7366d3f18bd111e7;
pub const SYSTEM_V2: u64 = 0xce9f011a92394434;
pub const USER_V1: u64 = 0xa50f31188bd211e7;
pub const USER_V2: u64 = 0x9fdeb5a90168d868;
pub const USER_V3: u64 = 0xca9811756ff64fb0;

struct Cur<'a> {
    b: &'a [u8],
    p: usize,
}

impl<'a> Cur<'a> {
    fn need(&self, n: usize, what: &str) -> Result<(), String> {
        if self.p.checked_add(n).map(|e| e <= self.b.len()).unwrap_or(false) {
            Ok(())
        } else {
            Err(format!("{}: needs {} bytes at offset {}, file has {}", what, n, self.p, self.b.len()))
        }
    }
    fn u8(&mut self, what: &str) -> Result<u8, String> {
        self.need(1, what)?;
        let v = self.b[self.p];
        self.p += 1;
        Ok(v)
    }
    fn u16(&mut self, what: &str) -> Result<u16, String> {
        self.need(2, what)?;
        let v = u16::from_le_bytes([self.b[self.p], self.b[self.p + 1]]);
        self.p += 2;
        Ok(v)
    }
    fn i16(&mut self, what: &str) -> Result<i16, String> {
        Ok(self.u16(what)? as i16)
    }
    fn u32(&mut self, what: &str) -> Result<u32, String> {
        self.need(4, what)?;
        let v = u32::from_le_bytes([self.b[self.p], self.b[self.p + 1], self.b[self.p + 2], self.b[self.p + 3]]);
        self.p += 4;
        Ok(v)
    }
    fn u64(&mut self, what: &str) -> Result<u64, String> {
        let lo = self.u32(what)? as u64;
        let hi = self.u32(what)? as u64;
        Ok(lo | (hi << 32))
    }
    fn strlen(&mut self, what: &str) -> Result<usize, String> {
        let b0 = self.u8(what)?;
        if b0 >= 128 {
            let b1 = self.u8(what)?;
            Ok((((b0 & 0x7f) as usize) << 8) | b1 as usize)
        } else {
            Ok(b0 as usize)
        }
    }
    fn string(&mut self, what: &str) -> Result<String, String> {
        let n = self.strlen(what)?;
        self.need(n * 2, what)?;
        let mut units = Vec::with_capacity(n);
        for i in 0..n {
            units.push(u16::from_le_bytes([self.b[self.p + 2 * i], self.b[self.p + 2 * i + 1]]));
        }
        self.p += 2 * n;
        String::from_utf16(&units).map_err(|_| format!("{}: invalid UTF-16 at offset {}", what, self.p))
    }
    fn u32_array(&mut self, what: &str) -> Result<Vec<u32>, String> {
        let n = self.u8(what)? as usize;
        if n > 127 {
            return Err(format!("{}: array of {} items exceeds the limit of 127", what, n));
        }
        let mut v = Vec::with_capacity(n);
        for _ in 0..n {
            v.push(self.u32(what)?);
        }
        Ok(v)
    }
}

pub fn parse(bytes: &[u8]) -> Result<ParsedDic, String> {
    let mut c = Cur { b: bytes, p: 0 };
    let mut sections = vec![("header", 0usize)];
    let version = c.u64("header.version")?;
    let time = c.u64("header.time")?;
    c.need(256, "header.description")?;
    let d = &bytes[c.p..c.p + 256];
    let end = d.iter().position(|b| *b == 0).unwrap_or(256);
    let desc = String::from_utf8_lossy(&d[..end]).to_string();
    c.p += 256;
    let is_user = match version {
        SYSTEM_V1 | SYSTEM_V2 => false,
        USER_V1 | USER_V2 | USER_V3 => true,
        v => return Err(format!("unknown header version {:#x}", v)),
    };
    let has_grammar = version != USER_V1;
    let has_syn = version == SYSTEM_V2 || version == USER_V3;
    let mut pos = vec![];
    let (mut num_left, mut num_right, mut matrix_off) = (0i16, 0i16, c.p);
    if has_grammar {
        sections.push(("pos_table", c.p));
        let npos = c.u16("pos.count")? as usize;
        for i in 0..npos {
            let mut row = vec![];
            for k in 0..6 {
                row.push(c.string(&format!("pos[{}][{}]", i, k))?);
            }
            pos.push(row);
        }
        sections.push(("matrix", c.p));
        num_left = c.i16("matrix.left")?;
        num_right = c.i16("matrix.right")?;
        if num_left < 0 || num_right < 0 {
            return Err(format!("negative matrix size {}x{}", num_left, num_right));
        }
        matrix_off = c.p;
        c.need(2 * num_left as usize * num_right as usize, "matrix.data")?;
        c.p += 2 * num_left as usize * num_right as usize;
    }
    sections.push(("trie", c.p));
    let trie_units = c.u32("trie.size")? as usize;
    c.need(trie_units.checked_mul(4).ok_or("trie size overflow")?, "trie.data")?;
    c.p += trie_units * 4;
    sections.push(("word_id_table", c.p));
    let wid_table_len = c.u32("wordid_table.size")? as usize;
    let wid_table_off = c.p;
    c.need(wid_table_len, "wordid_table.data")?;
    c.p += wid_table_len;
    sections.push(("word_params", c.p));
    let n = c.u32("entries.count")? as usize;
    c.need(n.checked_mul(6).ok_or("params overflow")?, "word_params")?;
    let mut params = Vec::with_capacity(n);
    for _ in 0..n {
        let l = c.i16("param")?;
        let r = c.i16("param")?;
        let k = c.i16("param")?;
        params.push((l, r, k));
    }
    sections.push(("wordinfo_offsets", c.p));
    c.need(n * 4, "wordinfo offsets")?;
    let mut offsets = Vec::with_capacity(n);
    for _ in 0..n {
        offsets.push(c.u32("offset")? as usize);
    }
    sections.push(("word_infos", c.p));
    let infos_start = c.p;
    let mut infos = Vec::with_capacity(n);
    for (i, off) in offsets.iter().enumerate() {
        if *off < infos_start || *off >= bytes.len() {
            return Err(format!("word info offset of entry {} ({}) outside the word-info section {}..{}", i, off, infos_start, bytes.len()));
        }
        let mut w = Cur { b: bytes, p: *off };
        let what = format!("wordinfo[{}]", i);
        let headword = w.string(&what)?;
        let head_len = w.strlen(&what)?;
        let pos_id = w.u16(&what)?;
        let norm = w.string(&what)?;
        let dic_form = w.u32(&what)? as i32;
        let reading = w.string(&what)?;
        let a = w.u32_array(&what)?;
        let b = w.u32_array(&what)?;
        let ws = w.u32_array(&what)?;
        let syn = if has_syn { w.u32_array(&what)? } else { vec![] };
        infos.push(Info { headword, head_len, pos_id, norm, dic_form, reading, a, b, ws, syn });
    }
    sections.push(("end", bytes.len()));
    Ok(ParsedDic {
        is_user,
        version,
        time,
        desc,
        pos,
        num_left,
        num_right,
        matrix_off,
        trie_units,
        wid_table_off,
        wid_table_len,
        n,
        params,
        infos,
        sections,
    })
}

pub fn matrix_cell(bytes: &[u8], p: &ParsedDic, l: usize, r: usize) -> i16 {
    // cell (l, r): l = right-id of the left word (0..num_left), r = left-id of the right word
    let idx = r * p.num_left as usize + l;
    let o = p.matrix_off + 2 * idx;
    i16::from_le_bytes([bytes[o], bytes[o + 1]])
}

/// Structural validity as the property states it. Returns Err((site, reason)).
pub fn validate(bytes: &[u8], p: &ParsedDic, system: Option<&ParsedDic>) -> Result<(), (String, String)> {
    let e = |site: &str, reason: String| -> Result<(), (String, String)> { Err((site.to_string(), reason)) };
    if p.is_user != system.is_some() {
        return e("dictionary-kind", format!("is_user={} but system given={}", p.is_user, system.is_some()));
    }
    let (nl, nr) = match system {
        Some(s) => (s.num_left as i64, s.num_right as i64),
        None => (p.num_left as i64, p.num_right as i64),
    };
    let sys_n = system.map(|s| s.n).unwrap_or(p.n);
    let sys_pos = system.map(|s| s.pos.len()).unwrap_or(0);
    let total_pos = sys_pos + p.pos.len();
    for row in &p.pos {
        for s in row {
            if s.encode_utf16().count() > 32767 {
                return e("string-limit", "part-of-speech string longer than 32767 units".into());
            }
        }
    }
    // word-id table: sequence of [len][ids]; every id < n; indexed entries exactly once
    let mut seen = vec![0u32; p.n];
    let t = &bytes[p.wid_table_off..p.wid_table_off + p.wid_table_len];
    let mut i = 0;
    while i < t.len() {
        let cnt = t[i] as usize;
        if cnt > 127 {
            return e("array-limit", format!("word-id table group of {} items", cnt));
        }
        if i + 1 + 4 * cnt > t.len() {
            return e("wordid-table", "group runs past the table".into());
        }
        for k in 0..cnt {
            let o = i + 1 + 4 * k;
            let id = u32::from_le_bytes([t[o], t[o + 1], t[o + 2], t[o + 3]]) as usize;
            if id >= p.n {
                return e("wordid-table", format!("word id {} >= number of entries {}", id, p.n));
            }
            seen[id] += 1;
        }
        i += 1 + 4 * cnt;
    }
    for (i, (l, r, _)) in p.params.iter().enumerate() {
        let indexed = *l >= 0;
        if indexed != (seen[i] == 1) {
            return e("index-membership", format!("entry {} left_id={} appears {} times in the index", i, l, seen[i]));
        }
        if indexed {
            // ids as the analysis uses them: right_id indexes the first (num_left) dimension,
            // left_id the second (num_right) one
            let (l, r) = (*l as i64, *r as i64);
            if r < 0 {
                return e("conn-id-outside-matrix", format!("entry {}: indexed entry with right_id {}", i, r));
            }
            let same_name_ok = l < nl && r < nr;
            let access_ok = l < nr && r < nl;
            if !access_ok {
                let site = if same_name_ok { "conn-id-outside-matrix(non-square)" } else { "conn-id-outside-matrix" };
                return e(site, format!("entry {}: left_id={} right_id={} but the matrix is {}x{}", i, l, r, nl, nr));
            }
        }
    }
    let check_ref = |label: &str, i: usize, raw: u32| -> Result<(), (String, String)> {
        let dic = raw >> 28;
        let word = (raw & 0x0fff_ffff) as usize;
        let max = match (dic, p.is_user) {
            (0, _) => sys_n,
            (1, true) => p.n,
            _ => {
                return Err(("dangling-reference".into(), format!("entry {}: {} reference {:#x} names dictionary {}", i, label, raw, dic)));
            }
        };
        if word >= max {
            return Err(("dangling-reference".into(), format!("entry {}: {} reference to word {} of dictionary {} which has {} entries", i, label, word, dic, max)));
        }
        Ok(())
    };
    for (i, w) in p.infos.iter().enumerate() {
        for s in [&w.headword, &w.norm, &w.reading] {
            if s.encode_utf16().count() > 32767 {
                return e("string-limit", format!("entry {}: string longer than 32767 units", i));
            }
        }
        if (w.pos_id as usize) >= total_pos {
            return e("pos-id", format!("entry {}: pos id {} but only {} parts of speech", i, w.pos_id, total_pos));
        }
        if w.dic_form != -1 {
            // the loader resolves a dictionary form inside the same lexicon
            if w.dic_form < 0 || (w.dic_form as usize) >= p.n {
                return e("dangling-dictionary-form", format!("entry {}: dictionary form id {} but the lexicon has {} entries", i, w.dic_form, p.n));
            }
        }
        for x in &w.a {
            check_ref("A-split", i, *x)?;
        }
        for x in &w.b {
            check_ref("B-split", i, *x)?;
        }
        for x in &w.ws {
            check_ref("word-structure", i, *x)?;
        }
    }
    Ok(())
}
