//! `FaultySink`: the simulated output device of the dictionary compiler.

use serde::{Deserialize, Serialize};
use std::io::{Error, ErrorKind, Write};

#[derive(Clone, Debug, Serialize, Deserialize, PartialEq)]
#[serde(tag = "kind", rename_all = "snake_case")]
pub enum SinkEvent {
    /// hard failure at byte offset `at`.
    /// mode "prefix": a write crossing `at` is accepted up to `at` (short count), the next write fails
    ///                (disk full / pipe semantics);
    /// mode "whole":  the write that would cross `at` fails as a whole.
    /// `sticky`: every later write fails too.
    Hard { at: usize, err: String, mode: String, sticky: bool },
    /// write returns Ok(0) when it reaches `at` (write_all must turn that into WriteZero)
    Zero { at: usize },
    /// the write covering `at` accepts only `n` (>=1) bytes
    Short { at: usize, n: usize },
    /// the write covering `at` fails `times` times with ErrorKind::Interrupted, then proceeds
    Eintr { at: usize, times: usize },
}

#[derive(Clone, Debug, Serialize, Deserialize, PartialEq, Default)]
pub struct SinkPlan {
    pub events: Vec<SinkEvent>,
    /// every write accepts at most this many bytes (0 = unlimited)
    #[serde(default)]
    pub max_chunk: usize,
    #[serde(default)]
    pub fail_flush: bool,
}

pub struct FaultySink {
    pub data: Vec<u8>,
    plan: SinkPlan,
    consumed: Vec<bool>,
    eintr_left: Vec<usize>,
    stuck: Option<String>,
    pub hard_fired: usize,
    pub hard_at: Option<usize>,
    pub transient_fired: usize,
    pub flush_calls: usize,
    pub writes: usize,
}

fn kind_of(s: &str) -> ErrorKind {
    match s {
        "StorageFull" => ErrorKind::StorageFull,
        "BrokenPipe" => ErrorKind::BrokenPipe,
        "WouldBlock" => ErrorKind::WouldBlock,
        "PermissionDenied" => ErrorKind::PermissionDenied,
        "TimedOut" => ErrorKind::TimedOut,
        _ => ErrorKind::Other,
    }
}

impl FaultySink {
    pub fn new(plan: SinkPlan) -> FaultySink {
        let n = plan.events.len();
        let eintr_left = plan
            .events
            .iter()
            .map(|e| match e {
                SinkEvent::Eintr { times, .. } => *times,
                _ => 0,
            })
            .collect();
        FaultySink {
            data: Vec::new(),
            plan,
            consumed: vec![false; n],
            eintr_left,
            stuck: None,
            hard_fired: 0,
            hard_at: None,
            transient_fired: 0,
            flush_calls: 0,
            writes: 0,
        }
    }
}

impl Write for FaultySink {
    fn write(&mut self, buf: &[u8]) -> std::io::Result<usize> {
        self.writes += 1;
        if let Some(k) = &self.stuck {
            self.hard_fired += 1;
            return Err(Error::new(kind_of(k), "injected: device still failing"));
        }
        if buf.is_empty() {
            return Ok(0);
        }
        let pos = self.data.len();
        let mut len = buf.len();
        if self.plan.max_chunk > 0 && len > self.plan.max_chunk {
            len = self.plan.max_chunk;
            self.transient_fired += 1;
        }
        // find the earliest unconsumed event inside [pos, pos+len)
        let mut best: Option<(usize, usize)> = None;
        for (i, e) in self.plan.events.iter().enumerate() {
            if self.consumed[i] {
                continue;
            }
            let at = match e {
                SinkEvent::Hard { at, .. } | SinkEvent::Zero { at } | SinkEvent::Short { at, .. } | SinkEvent::Eintr { at, .. } => *at,
            };
            if at >= pos && at < pos + len {
                if best.map(|(_, b)| at < b).unwrap_or(true) {
                    best = Some((i, at));
                }
            }
        }
        let (i, at) = match best {
            None => {
                self.data.extend_from_slice(&buf[..len]);
                return Ok(len);
            }
            Some(x) => x,
        };
        match self.plan.events[i].clone() {
            SinkEvent::Hard { err, mode, sticky, .. } => {
                if mode == "prefix" && at > pos {
                    // accept what fits, fail on the next call
                    self.data.extend_from_slice(&buf[..at - pos]);
                    self.transient_fired += 1;
                    return Ok(at - pos);
                }
                self.consumed[i] = true;
                self.hard_fired += 1;
                self.hard_at = Some(at);
                if sticky {
                    self.stuck = Some(err.clone());
                }
                Err(Error::new(kind_of(&err), "injected: device failure"))
            }
            SinkEvent::Zero { .. } => {
                if at > pos {
                    self.data.extend_from_slice(&buf[..at - pos]);
                    self.transient_fired += 1;
                    return Ok(at - pos);
                }
                self.consumed[i] = true;
                self.hard_fired += 1;
                self.hard_at = Some(at);
                Ok(0)
            }
            SinkEvent::Short { n, .. } => {
                self.consumed[i] = true;
                self.transient_fired += 1;
                let k = n.max(1).min(len);
                self.data.extend_from_slice(&buf[..k]);
                Ok(k)
            }
            SinkEvent::Eintr { .. } => {
                self.transient_fired += 1;
                if self.eintr_left[i] <= 1 {
                    self.consumed[i] = true;
                } else {
                    self.eintr_left[i] -= 1;
                }
                Err(Error::new(ErrorKind::Interrupted, "injected: EINTR"))
            }
        }
    }

    fn flush(&mut self) -> std::io::Result<()> {
        self.flush_calls += 1;
        if self.plan.fail_flush {
            self.hard_fired += 1;
            return Err(Error::new(ErrorKind::Other, "injected: flush failure"));
        }
        Ok(())
    }
}
