//! Generates the fixed-per-seed scenario executed by the Miri engine (C18 engine B): a small world
//! with every plugin type, compiled natively, and 3 threads x 2-3 operations whose texts reach
//! every plugin.

use crate::dictfac::{compile_system, compile_user, write_resources, FIXED_TIME};
use crate::rng::Rng;
use crate::world::{gen_world, WorldGenOpts};
use serde_json::json;
use std::path::Path;

/// `big`: the same kind of world plus 1200 inflected words whose dictionary forms are separate entries, and one long
/// text per thread that uses 400 of them: state whose behaviour changes with the *amount* of distinct data seen
/// (bounded caches, tables that grow) is exercised by the shuttle engine only with such a scenario.
/// `many`: nine threads instead of three, every one of them also splits sentences (state keyed by a thread counter,
/// pools with a fixed number of slots).
pub fn generate(seed: u64, dir: &Path, big: bool, many: bool) -> Result<(), String> {
    let mut rng = Rng::derive(seed, if big { "mirigen-big" } else if many { "mirigen-many" } else { "mirigen" }, 0);
    // keep the world small: Miri interprets dictionary loading too
    let opts = WorldGenOpts { max_users: 1, max_rows: 10, full_plugins: true };
    let (mut world, _) = loop {
        let (w, r) = gen_world(&mut rng, &opts);
        if !w.user_csv.is_empty() {
            // keep the numeral entries the cheapest reading of the digits (see `numeral` below)
            break (w, r);
        }
    };
    // no automatically computed costs: they make the loader analyse text on the loading thread,
    // which would initialise lazily built state before the threads start
    for u in world.user_csv.iter_mut() {
        *u = u.replace(",-32768,", ",5000,");
    }
    // the yomigana plugin must really fire on the scenario's bracketed readings
    if let Some(arr) = world.config["inputTextPlugin"].as_array_mut() {
        for p in arr.iter_mut() {
            if p["class"].as_str().map(|c| c.ends_with("IgnoreYomiganaPlugin")).unwrap_or(false) {
                p["maxYomiganaLength"] = json!(4);
            }
        }
    }
    // a compact rewrite.def keeps the automaton construction affordable under Miri
    world.rewrite_def = "# ignore\nΩ\n\n# replace\nｶﾞ\tガ\nか\u{3099}\tが\nｱ\tア\n".to_string();
    let mut big_texts: Vec<String> = vec![String::new(), String::new(), String::new()];
    if big {
        let first = world.system_csv.lines().next().unwrap_or("").to_string();
        let f = crate::buildsim::split_csv_line(&first);
        let pos = if f.len() >= 19 { f[5..11].join(",") } else { "名詞,普通名詞,一般,*,*,*".to_string() };
        let base = world.system_csv.lines().count();
        let mut extra = String::new();
        for i in 0..1200usize {
            let c1 = char::from_u32(0x5200 + (i / 48) as u32).unwrap();
            let c2 = char::from_u32(0x5400 + (i % 48) as u32).unwrap();
            let infl = format!("{}{}", c1, c2);
            let lemma = format!("{}る", infl);
            extra.push_str(&format!("{0},0,0,-300,{0},{1},{0},{0},*,A,*,*,*,*\n", lemma, pos));
            extra.push_str(&format!("{0},0,0,-300,{0},{1},{0},{0},{2},A,*,*,*,*\n", infl, pos, base + 2 * i));
            big_texts[i % 3].push_str(&infl);
        }
        world.system_csv.push_str(&extra);
    }
    std::fs::create_dir_all(dir).map_err(|e| e.to_string())?;
    write_resources(&world, dir)?;
    let sys = compile_system(world.matrix.as_bytes(), &[world.system_csv.as_bytes()], FIXED_TIME, "miri")?;
    std::fs::write(dir.join("system.dic"), &sys).map_err(|e| e.to_string())?;
    for (i, u) in world.user_csv.iter().enumerate() {
        let ub = compile_user(&sys, &[u.as_bytes()], FIXED_TIME, "miri-user")?;
        std::fs::write(dir.join(format!("user{}.dic", i)), &ub).map_err(|e| e.to_string())?;
    }
    let key = |rng: &mut Rng| -> String {
        if world.keys.is_empty() { "あ".to_string() } else { rng.pick(&world.keys).clone() }
    };
    // texts that reach: rewrite rules + NFKC, prolonged sound marks, yomigana brackets, numerals
    // (JoinNumeric), katakana OOV (JoinKatakanaOov), regex OOV, MeCab OOV, dictionary words
    let pool = vec![
        format!("{}ｶﾞか\u{3099}Ａ{}", key(&mut rng), key(&mut rng)),
        format!("アイーーー{}〜〜", key(&mut rng)),
        format!("東京(とう){}漢（か）", key(&mut rng)),
        format!("一二三十{}1,000.5", key(&mut rng)),
        format!("{}ウカカウ{}", key(&mut rng), key(&mut rng)),
        format!("abc-12{}漢漢ax-3b", key(&mut rng)),
        format!("{}{}{}", key(&mut rng), key(&mut rng), key(&mut rng)),
        // characters whose NFKC form has several characters (one-to-many replacements in the normaliser): the same
        // ones in every thread, met for the first time on this dictionary by all of them
        format!("㍿㌔{}ﬁ㈱㌦№", key(&mut rng)),
    ];
    // a numeral with separators that this world's dictionary really joins into one token (homographs of the
    // digits can shadow the numeral reading): found by analysing candidates with the freshly built dictionary
    let numeral = {
        let built = crate::dictfac::build_world(&world, dir)?;
        let mut found = None;
        for cand in ["1,000.5", "2,000", "3.5", "10,000", "0.5", "1,000", "一,〇〇〇", "2.0"] {
            if let Ok(l) = crate::toksim::fresh_analyse(&built.dict, sudachi::analysis::Mode::C, None, &format!("{}と", cand)) {
                if l.len() >= 1 && l.get(0).end() == cand.len() {
                    found = Some(cand.to_string());
                    break;
                }
            }
        }
        found
    };
    let modes = ["A", "B", "C"];
    let mut threads = vec![];
    let mut order: Vec<usize> = (0..pool.len()).collect();
    for t in 0..(if many { 9 } else { 3 }) {
        let mut ops = vec![];
        for k in 0..(if many { 1 } else { 2 }) {
            // every text of every thread reaches every stateful plugin (rewrite rules, prolonged sound marks,
            // yomigana brackets, numerals, katakana / regex / MeCab OOV), in a thread-specific order and with
            // thread-specific dictionary words, so that two threads are inside the same plugin with different data
            rng.shuffle(&mut order);
            let mut text = String::new();
            if k == 1 {
                // a numeral with separators as the very first token (state of the numeric joiner at the start of a path)
                if let Some(nm) = &numeral {
                    text.push_str(nm);
                }
            }
            for (j, idx) in order.iter().enumerate() {
                if j >= 4 + k {
                    break;
                }
                text.push_str(&pool[*idx]);
            }
            text.push_str(&key(&mut rng));
            let subset = if rng.chance(1, 2) { 1023 } else { (rng.next_u64() as u32 & 1023) | 0b1101 };
            ops.push(json!({"op": "analyse", "text": text, "mode": modes[rng.below(3)], "subset": subset}));
        }
        if big {
            ops.push(json!({"op": "analyse", "text": big_texts[t], "mode": "C", "subset": 1023}));
        }
        if t == 0 || many {
            ops.push(json!({"op": "sentences", "text": format!("{}。{}！{}", key(&mut rng), key(&mut rng), key(&mut rng))}));
        }
        threads.push(json!({"ops": ops, "expected": []}));
    }
    let sc = json!({
        "seed": seed,
        "dir": dir.display().to_string(),
        "config": world.config,
        "users": world.user_csv.len(),
        "threads": threads,
        "world": {"system_csv": world.system_csv, "user_csv": world.user_csv, "matrix": world.matrix,
                  "char_def": world.char_def, "unk_def": world.unk_def, "rewrite_def": world.rewrite_def},
    });
    std::fs::write(dir.join("scenario.json"), serde_json::to_vec_pretty(&sc).unwrap()).map_err(|e| e.to_string())?;
    Ok(())
}
