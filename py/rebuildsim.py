#!/usr/bin/env python3
"""C18 ("the dictionary is never modified after loading"), environment facet: a dictionary loaded (memory
mapped) from path P keeps giving the same results while a new dictionary is compiled to the same path P by
the real front ends (`sudachi build`, sudachipy.build_system_dic), with and without the output failing at a
seeded byte (RLIMIT_FSIZE). One child interpreter per case; a child killed by a signal (SIGBUS) is a crash.

  rebuildsim.py <cases.jsonl from buildgen> <sudachi binary> <stage dir> [--out results.json] [--seed N]
"""
import json
import os
import subprocess
import sys
from concurrent.futures import ThreadPoolExecutor

CHILD = r"""
import json, os, resource, shutil, signal, subprocess, sys
case = json.loads(sys.argv[1]); other = json.loads(sys.argv[2]); binary = sys.argv[3]; stage = sys.argv[4]; how = sys.argv[5]; limit = int(sys.argv[6])
sys.path.insert(0, stage)
import sudachipy
import sudachipy.sudachipy as sp
d = case["dir"]
P = os.path.join(d, "live-%s-%d.dic" % (how, limit))
shutil.copy(os.path.join(d, "ref_system.dic"), P)
cfg = {"systemDict": P, "characterDefinitionFile": "char.def", "inputTextPlugin": [], "pathRewritePlugin": [], "connectionCostPlugin": [],
       "oovProviderPlugin": [{"class": "com.worksap.nlp.sudachi.SimpleOovPlugin", "oovPOS": ["補助記号", "一般", "*", "*", "*", "*"], "userPOS": "allow", "leftId": 0, "rightId": 0, "cost": 30000}]}
dic = sudachipy.Dictionary(config=json.dumps(cfg), resource_dir=os.path.join(stage, "sudachipy", "resources"))
tok = dic.create()
texts = [l.split(",")[0] for l in open(os.path.join(d, "lex.csv"), encoding="utf-8").read().splitlines()[:40]]
texts.append("".join(texts[:8]))
def snap():
    return [[(m.begin(), m.end(), m.word_id(), m.normalized_form(), m.reading_form(), m.part_of_speech_id()) for m in tok.tokenize(t)] for t in texts]
before = snap()
# compile ANOTHER world to the same path while `dic` is alive
o = other["dir"]
signal.signal(signal.SIGXFSZ, signal.SIG_IGN)
if how == "cli":
    def pre():
        if limit >= 0:
            resource.setrlimit(resource.RLIMIT_FSIZE, (limit, limit))
    subprocess.run([binary, "build", "-m", os.path.join(o, "matrix.def"), "-o", P, os.path.join(o, "lex.csv")], stdout=subprocess.DEVNULL, stderr=subprocess.DEVNULL, preexec_fn=pre)
else:
    if limit >= 0:
        resource.setrlimit(resource.RLIMIT_FSIZE, (limit, limit))
    try:
        sp.build_system_dic(os.path.join(o, "matrix.def"), [os.path.join(o, "lex.csv")], P, "")
    except BaseException:
        pass
    resource.setrlimit(resource.RLIMIT_FSIZE, (resource.RLIM_INFINITY, resource.RLIM_INFINITY)) if False else None
try:
    after = snap()
    same = before == after
    err = None
except BaseException as e:  # data read from the mapping is garbage now
    same = False
    err = type(e).__name__ + ": " + str(e)[:200]
print(json.dumps({"same": same, "n": sum(len(x) for x in before), "error": err}))
"""


def one(case, other, binary, stage, how, limit):
    p = subprocess.run([sys.executable, "-c", CHILD, json.dumps(case), json.dumps(other), binary, stage, how, str(limit)],
                       stdout=subprocess.PIPE, stderr=subprocess.PIPE, timeout=300)
    res = {"case": case["case"], "how": how, "limit": limit, "ok": True}
    if p.returncode < 0:
        res.update(ok=False, cls="interpreter-crash", site="signal-%d" % (-p.returncode), detail={"front_end": how})
    elif p.returncode != 0:
        res.update(ok=False, cls="harness-error", site="child", detail={"stderr": p.stderr.decode("utf-8", "replace")[-500:]})
    else:
        try:
            out = json.loads(p.stdout.decode("utf-8").strip().splitlines()[-1])
        except Exception:
            out = {"same": None}
        if out.get("same") is not True:
            res.update(ok=False, cls="dictionary-changed-after-loading", site="rebuilt-in-place", detail={"front_end": how, "limit": limit, "error": out.get("error")})
        res["morphemes"] = out.get("n", 0)
    try:
        os.remove(os.path.join(case["dir"], "live-%s-%d.dic" % (how, limit)))
    except OSError:
        pass
    return res


def main():
    path, binary, stage = sys.argv[1:4]
    outp = "rebuild-results.json"
    seed = 1
    a = sys.argv[4:]
    while a:
        if a[0] == "--out":
            outp = a[1]; a = a[2:]
        elif a[0] == "--seed":
            seed = int(a[1]); a = a[2:]
        else:
            a = a[1:]
    with open(path, encoding="utf-8") as f:
        cases = [json.loads(l) for l in f if l.strip()]
    work = []
    for i, c in enumerate(cases):
        other = cases[(i + 1) % len(cases)]
        L = other["system_len"]
        lim = [-1, (seed * 7919 + i * 104729) % (L + 1), 300]
        for how in ("cli", "py"):
            for k in lim:
                work.append((c, other, how, k))
    with ThreadPoolExecutor(max_workers=8) as ex:
        results = list(ex.map(lambda w: one(w[0], w[1], binary, stage, w[2], w[3]), work))
    with open(outp, "w", encoding="utf-8") as f:
        json.dump({"cases": len(cases), "runs": len(results), "results": results}, f)
    bad = [r for r in results if not r["ok"]]
    print("rebuildsim: worlds=%d runs=%d failing=%d" % (len(cases), len(results), len(bad)))
    sys.exit(0 if not bad else 1)


if __name__ == "__main__":
    main()
