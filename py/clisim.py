#!/usr/bin/env python3
"""CliSim executor: runs the real `sudachi` binary on generated inputs (as a file argument, over
stdin, and over stdin/stdout through the LD_PRELOAD io shim with seeded short reads/writes and
EINTR) and compares stdout byte for byte with what the library prescribes.

  clisim.py <cases.jsonl> <sudachi binary> <ioshim.so> [--jobs N] [--out results.json]
"""
import json
import os
import subprocess
import sys
from concurrent.futures import ThreadPoolExecutor


def run_case(case, binary, shim):
    d = case["dir"]
    base = [binary, "-r", os.path.join(d, "sudachi.json"), "-p", d] + case["args"]
    data = case["input"].encode("utf-8")
    exp = case["expected"].encode("utf-8")
    inp = os.path.join(d, "in-%d.txt" % case["case"])
    with open(inp, "wb") as f:
        f.write(data)
    outp = os.path.join(d, "out-%d.txt" % case["case"])
    variants = [
        ("file", base + [inp], None, {}),
        ("file+output-file", base + ["-o", outp, inp], None, {}),
        ("stdin", base, data, {}),
        ("stdin+shim", base, data, {"LD_PRELOAD": shim, "VSHIM_SEED": str(case["shim_seed"])}),
    ]
    if case["case"] % 2 == 0:
        # the output file exists already and is longer than the result will be
        with open(outp, "wb") as f:
            f.write(("古い出力 stale\n" * 20000).encode("utf-8"))
    fired = 0
    for name, cmd, stdin, extra in variants:
        env = dict(os.environ)
        env.update(extra)
        try:
            p = subprocess.run(cmd, input=stdin, stdout=subprocess.PIPE, stderr=subprocess.PIPE, env=env, timeout=120)
        except subprocess.TimeoutExpired:
            return {"case": case["case"], "ok": False, "class": "no-termination", "site": name, "detail": {}}
        if p.returncode != 0:
            cls = "interpreter-crash" if p.returncode < 0 else "exit-status"
            return {"case": case["case"], "ok": False, "class": cls, "site": "%s:%d" % (name, p.returncode),
                    "detail": {"stderr": p.stderr.decode("utf-8", "replace")[-400:]}}
        produced = p.stdout
        if name == "file+output-file":
            # -o: everything goes to the file, nothing to stdout
            try:
                with open(outp, "rb") as f:
                    produced = f.read()
                os.remove(outp)
            except OSError:
                produced = b"<no output file>"
            if p.stdout:
                produced = b"<stdout not empty>" + p.stdout
        if produced != exp:
            got = produced.decode("utf-8", "replace").split("\n")
            want = case["expected"].split("\n")
            line = next((i for i in range(min(len(got), len(want))) if got[i] != want[i]), min(len(got), len(want)))
            cls = "stdout-differs" if name != "stdin+shim" else "shim-changes-output"
            if name == "file+output-file":
                cls = "output-file-differs"
            return {"case": case["case"], "ok": False, "class": cls, "site": name,
                    "detail": {"line": line, "got": (got[line] if line < len(got) else "<eof>")[:200],
                               "expected": (want[line] if line < len(want) else "<eof>")[:200], "args": case["args"]}}
        fired += 1
    try:
        os.remove(inp)
    except OSError:
        pass
    return {"case": case["case"], "ok": True, "variants": fired, "lines": case["input"].count("\n"), "bytes": len(data)}


def main():
    path, binary, shim = sys.argv[1:4]
    jobs, out = 16, "clisim-results.json"
    a = sys.argv[4:]
    while a:
        if a[0] == "--jobs":
            jobs = int(a[1]); a = a[2:]
        elif a[0] == "--out":
            out = a[1]; a = a[2:]
        else:
            a = a[1:]
    with open(path, encoding="utf-8") as f:
        cases = [json.loads(l) for l in f if l.strip()]
    with ThreadPoolExecutor(max_workers=jobs) as ex:
        results = list(ex.map(lambda c: run_case(c, binary, shim), cases))
    results.sort(key=lambda r: r["case"])
    with open(out, "w", encoding="utf-8") as f:
        json.dump({"cases": len(cases), "results": results}, f, ensure_ascii=False)
    bad = [r for r in results if not r["ok"]]
    print("clisim: cases=%d failing=%d" % (len(cases), len(bad)))
    sys.exit(0 if not bad else 1)


if __name__ == "__main__":
    main()
