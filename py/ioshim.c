/* LD_PRELOAD shim: makes read(0, ...) and write(1, ...) behave like a slow pipe / interrupted
 * system call: seeded short counts and EINTR. Everything else passes through. */
#define _GNU_SOURCE
#include <dlfcn.h>
#include <errno.h>
#include <stdlib.h>
#include <unistd.h>
#include <stdint.h>

static uint64_t state = 0;
static int inited = 0;
static ssize_t (*real_read)(int, void *, size_t);
static ssize_t (*real_write)(int, const void *, size_t);

static void init(void) {
    if (inited) return;
    inited = 1;
    const char *s = getenv("VSHIM_SEED");
    state = s ? strtoull(s, 0, 10) : 1;
    real_read = dlsym(RTLD_NEXT, "read");
    real_write = dlsym(RTLD_NEXT, "write");
}

static uint64_t next(void) {
    state += 0x9E3779B97F4A7C15ULL;
    uint64_t z = state;
    z = (z ^ (z >> 30)) * 0xBF58476D1CE4E5B9ULL;
    z = (z ^ (z >> 27)) * 0x94D049BB133111EBULL;
    return z ^ (z >> 31);
}

ssize_t read(int fd, void *buf, size_t count) {
    init();
    if (fd == 0 && count > 0) {
        uint64_t r = next();
        if (r % 5 == 0) { errno = EINTR; return -1; }
        size_t k = 1 + (r >> 8) % 7;
        if (k < count) count = k;
    }
    return real_read(fd, buf, count);
}

ssize_t write(int fd, const void *buf, size_t count) {
    init();
    if (fd == 1 && count > 0) {
        uint64_t r = next();
        if (r % 5 == 0) { errno = EINTR; return -1; }
        size_t k = 1 + (r >> 8) % 9;
        if (k < count) count = k;
    }
    return real_write(fd, buf, count);
}
