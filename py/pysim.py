#!/usr/bin/env python3
"""PySim executor: runs generated scripts of SudachiPy API calls against the real extension and
compares every observable with the expectation computed by the Rust library.

  pysim.py run   <scripts.jsonl> <stage_dir> [--jobs N] [--out results.json]
  pysim.py child <scripts.jsonl> <stage_dir> <first> <step>      (internal)

A child interpreter executes a stride of the scripts and reports one JSON line per script. A
child that dies from a signal or aborts is an `interpreter-crash` of the script in progress.
"""
import json
import os
import subprocess
import sys


def load_scripts(path):
    with open(path, encoding="utf-8") as f:
        return [json.loads(l) for l in f if l.strip()]


def iter_share(path, first, step):
    """stream the non-empty lines whose index is first, first+step, ...: a worker never holds more than one script"""
    i = 0
    with open(path, encoding="utf-8") as f:
        for l in f:
            if not l.strip():
                continue
            if i % step == first:
                yield json.loads(l)
            i += 1


def count_scripts(path):
    with open(path, encoding="utf-8") as f:
        return sum(1 for l in f if l.strip())


class Mismatch(Exception):
    def __init__(self, cls, site, detail):
        super().__init__(cls)
        self.cls, self.site, self.detail = cls, site, detail


def cmp_list(lst, exp, text, sudachipy):
    """compare a MorphemeList with its expectation; returns number of values compared"""
    n = 0
    ms = exp["morphemes"]
    if len(lst) != len(ms) or lst.size() != exp["size"]:
        raise Mismatch("result-differs-from-core", "len", {"python": len(lst), "core": len(ms)})
    it = list(iter(lst))
    if len(it) != len(ms):
        raise Mismatch("result-differs-from-core", "iter", {"python": len(it), "core": len(ms)})
    if bool(lst) != (len(ms) != 0):
        raise Mismatch("result-differs-from-core", "bool", {})
    for i, e in enumerate(ms):
        m = lst[i]
        getters = {
            "begin": m.begin, "end": m.end, "raw_surface": m.raw_surface, "is_oov": m.is_oov, "word_id": m.word_id,
            "dictionary_id": m.dictionary_id, "surface": m.surface, "part_of_speech_id": m.part_of_speech_id,
            "normalized_form": m.normalized_form, "dictionary_form": m.dictionary_form, "reading_form": m.reading_form,
        }
        for k, g in getters.items():
            if k in e:
                v = g()
                n += 1
                if v != e[k]:
                    raise Mismatch("result-differs-from-core", k, {"morpheme": i, "python": repr(v)[:200], "core": repr(e[k])[:200]})
        if "part_of_speech" in e:
            v = list(m.part_of_speech())
            n += 1
            if v != e["part_of_speech"]:
                raise Mismatch("result-differs-from-core", "part_of_speech", {"morpheme": i, "python": v, "core": e["part_of_speech"]})
        if "synonym_group_ids" in e:
            v = list(m.synonym_group_ids())
            n += 1
            if v != e["synonym_group_ids"]:
                raise Mismatch("result-differs-from-core", "synonym_group_ids", {"morpheme": i, "python": v, "core": e["synonym_group_ids"]})
        if len(m) != e["len"]:
            raise Mismatch("result-differs-from-core", "len(morpheme)", {"morpheme": i, "python": len(m), "core": e["len"]})
        if text is not None and text[m.begin():m.end()] != m.raw_surface():
            raise Mismatch("result-differs-from-core", "text[begin:end]", {"morpheme": i, "slice": text[m.begin():m.end()], "raw_surface": m.raw_surface()})
        if str(m) != m.surface():
            raise Mismatch("result-differs-from-core", "str(morpheme)", {"morpheme": i})
        repr(m)
        # negative index
        if lst[i - len(ms)].word_id() != m.word_id():
            raise Mismatch("result-differs-from-core", "negative-index", {"morpheme": i})
    if "str" in exp and str(lst) != exp["str"]:
        raise Mismatch("result-differs-from-core", "str(list)", {"python": str(lst)[:200], "core": exp["str"][:200]})
    if "internal_cost" in exp and lst.get_internal_cost() != exp["internal_cost"]:
        raise Mismatch("result-differs-from-core", "internal_cost", {"python": lst.get_internal_cost(), "core": exp["internal_cost"]})
    repr(lst)
    return n


def touch_everything(objs):
    """stale objects: any outcome but a crash is acceptable"""
    for m in objs:
        for name in ("begin", "end", "surface", "raw_surface", "part_of_speech", "part_of_speech_id", "dictionary_form",
                     "normalized_form", "reading_form", "is_oov", "word_id", "dictionary_id", "synonym_group_ids", "__len__", "__str__", "__repr__"):
            try:
                getattr(m, name)()
            except BaseException:  # noqa: also pyo3 PanicException
                pass


class FakeNormalizedString:
    """stand-in for tokenizers.NormalizedString: what SudachiPreTokenizer needs from it"""

    def __init__(self, text):
        self.text = text

    def __str__(self):
        return self.text

    def slice(self, sl):
        return self.text[sl]


def install_tokenizers_standin():
    import types
    if "tokenizers" in sys.modules:
        return
    tok = types.ModuleType("tokenizers")
    pre = types.ModuleType("tokenizers.pre_tokenizers")

    class PreTokenizer:
        @staticmethod
        def custom(obj):
            return obj

    pre.PreTokenizer = PreTokenizer
    tok.pre_tokenizers = pre
    tok.NormalizedString = FakeNormalizedString
    sys.modules["tokenizers"] = tok
    sys.modules["tokenizers.pre_tokenizers"] = pre


def run_script(sc, sudachipy, dic=None, point=None, pretoks=None):
    stats = {"ops": 0, "values": 0, "skipped": 0, "stale_touches": 0, "per_call_mode": 0, "out_reuse": 0}
    own_dic = dic is None
    if dic is None:
        dic = sudachipy.Dictionary(config=sc["config"], resource_dir=sc["dir"])
    toks = []
    for t in sc["tokenizers"]:
        kw = {}
        if t["fields"] is not None:
            kw["fields"] = set(t["fields"])
        if t["projection"] is not None:
            kw["projection"] = t["projection"]
        toks.append((dic.create(sudachipy.SplitMode(t["mode"]), **kw), t))
    if pretoks is None and any(o["op"] == "pretok" for o in sc["ops"]):
        # sequential scripts: one pre-tokenizer object with and one without a handler, used many times
        install_tokenizers_standin()
        pretoks = (dic.pre_tokenizer(mode="C", handler=lambda i, s_, ml: [m.surface() for m in ml]), dic.pre_tokenizer(mode="C"))
    slots = [None] * sc["n_slots"]      # (list, fill id, text)
    handed_out = [[] for _ in range(sc["n_slots"])]
    iters = [None] * sc["n_slots"]
    # input-sharing groups of live list objects (Morpheme.split results share their parent's input): when a
    # list is used as an output parameter every other member of its group becomes stale (documented)
    group_of = {}
    stale = set()
    next_group = [0]

    all_lists = []   # every list object of the script stays alive (ids are used as keys)

    def new_group(lst):
        next_group[0] += 1
        group_of[id(lst)] = next_group[0]
        all_lists.append(lst)
        stale.discard(id(lst))

    def reused_as_out(lst):
        # every list that ever shared this text becomes stale, also ones no slot refers to any more (an iterator or a
        # Morpheme may still hold them)
        g = group_of.get(id(lst))
        for l_ in all_lists:
            if l_ is not lst and group_of.get(id(l_)) == g:
                stale.add(id(l_))
        stale.discard(id(lst))
    for k, op in enumerate(sc["ops"]):
        stats["ops"] += 1
        if point is not None:
            point()
        try:
            kind = op["op"]
            if kind == "pretok":
                if pretoks is None:
                    stats["skipped"] += 1
                    continue
                pt = pretoks[0] if op["handler"] else pretoks[1]
                got = pt(k, FakeNormalizedString(op["text"]))
                got = [str(x) for x in got]
                stats["values"] += len(got)
                if got != op["expect"]:
                    raise Mismatch("result-differs-from-sequential", "pretokenizer", {"python": got[:12], "core": op["expect"][:12], "handler": op["handler"]})
            elif kind == "tokenize_surrogate":
                tok, tspec = toks[op["t"]]
                text = op["before"] + chr(op["surrogate"]) + op["after"]
                try:
                    res = tok.tokenize(text)
                except Exception:  # noqa: UnicodeEncodeError is the expected outcome
                    continue
                pos = 0
                for i, m in enumerate(res):
                    if text[m.begin():m.end()] != m.raw_surface() or m.begin() != pos:
                        raise Mismatch("result-differs-from-core", "text[begin:end]", {"morpheme": i, "slice": repr(text[m.begin():m.end()])[:80],
                                                                                        "raw_surface": repr(m.raw_surface())[:80], "note": "text with a lone surrogate was accepted"})
                    pos = m.end()
                if len(res) and pos != len(text):
                    raise Mismatch("result-differs-from-core", "text[begin:end]", {"end": pos, "len": len(text), "note": "text with a lone surrogate was accepted"})
            elif kind == "tokenize":
                tok, tspec = toks[op["t"]]
                kw = {}
                if op["mode"] is not None:
                    kw["mode"] = sudachipy.SplitMode(op["mode"]) if op.get("mode_as_obj") else op["mode"]
                    stats["per_call_mode"] += 1
                out = None
                if op["out"] is not None and slots[op["out"]] is not None:
                    out = slots[op["out"]][0]
                    kw["out"] = out
                    stats["out_reuse"] += 1
                exp = op["expect"]
                try:
                    res = tok.tokenize(op["text"], **kw)
                except Exception as ex:  # noqa
                    if "error" in exp:
                        if tok.mode != sudachipy.SplitMode(tspec["mode"]):
                            raise Mismatch("per-call-mode-leaked", "after-error", {"mode": str(tok.mode)})
                        continue
                    raise Mismatch("unexpected-exception", type(ex).__name__, {"message": str(ex)[:300]})
                if "error" in exp:
                    raise Mismatch("expected-error", "tokenize", {"core_error": exp["error"][:200]})
                if out is not None and res is not out:
                    raise Mismatch("result-differs-from-core", "out-identity", {})
                if tok.mode != sudachipy.SplitMode(tspec["mode"]):
                    raise Mismatch("per-call-mode-leaked", "after-success", {"mode": str(tok.mode)})
                if out is None:
                    new_group(res)
                else:
                    reused_as_out(res)
                stats["values"] += cmp_list(res, exp, op["text"], sudachipy)
                handed_out[op["store"]] = handed_out[op["store"]][-20:] + list(res)[:5]
                slots[op["store"]] = (res, op["fill"], op["text"])
            elif kind == "split":
                src = slots[op["list"]]
                if src is None or src[1] != op["of_fill"] or op["idx"] >= len(src[0]) or id(src[0]) in stale:
                    stats["skipped"] += 1
                    continue
                kw = {}
                if op["add_single"] is not None:
                    kw["add_single"] = op["add_single"]
                out = None
                if op["out"] is not None and slots[op["out"]] is not None and slots[op["out"]][0] is not src[0]:
                    out = slots[op["out"]][0]
                    kw["out"] = out
                    stats["out_reuse"] += 1
                elif op["out"] is not None:
                    stats["skipped"] += 1
                    continue
                try:
                    res = src[0][op["idx"]].split(op["mode"], **kw)
                except Exception as ex:  # noqa
                    raise Mismatch("unexpected-exception", "split:" + type(ex).__name__, {"message": str(ex)[:300]})
                # the result refers to the parent's input (an untouched, cleared `out` keeps its own)
                if out is None or len(res) > 0:
                    group_of[id(res)] = group_of.get(id(src[0]))
                    if not any(l_ is res for l_ in all_lists):
                        all_lists.append(res)
                    stale.discard(id(res))
                stats["values"] += cmp_list(res, op["expect"], src[2], sudachipy)
                slots[op["store"]] = (res, op["fill"], src[2])
            elif kind == "lookup":
                kw = {}
                if op["out"] is not None and slots[op["out"]] is not None:
                    kw["out"] = slots[op["out"]][0]
                    stats["out_reuse"] += 1
                try:
                    res = dic.lookup(op["surface"], **kw)
                except Exception as ex:  # noqa
                    raise Mismatch("unexpected-exception", "lookup:" + type(ex).__name__, {"message": str(ex)[:300]})
                if "out" in kw:
                    reused_as_out(res)
                else:
                    new_group(res)
                if len(res) != op["expect"]["count"]:
                    raise Mismatch("result-differs-from-core", "lookup.count", {"python": len(res), "core": op["expect"]["count"]})
                stats["values"] += cmp_list(res, op["expect"], op["surface"], sudachipy)
                slots[op["store"]] = (res, op["fill"], op["surface"])
            elif kind == "reread":
                src = slots[op["list"]]
                if src is None or src[1] != op["of_fill"] or id(src[0]) in stale:
                    stats["skipped"] += 1
                    continue
                stats["values"] += cmp_list(src[0], op["expect"], src[2], sudachipy)
            elif kind == "stale":
                objs = handed_out[op["list"]]
                touch_everything(objs)
                stats["stale_touches"] += len(objs)
            elif kind == "posmatch":
                def mk(spec):
                    if spec["kind"] == "fn":
                        i_, v_ = spec["index"], spec["value"]
                        return dic.pos_matcher(lambda pos: pos[i_] == v_)
                    return dic.pos_matcher([tuple(t) for t in spec["tuples"]])
                exp = op["expect"]
                try:
                    pm = mk(op["a"])
                    if op["comb"] == "not":
                        pm = ~pm
                    elif op["comb"] is not None:
                        other = mk(op["b"])
                        pm = (pm | other) if op["comb"] == "or" else (pm & other) if op["comb"] == "and" else (pm - other)
                except Exception as ex:  # noqa
                    if "error" in exp:
                        continue
                    raise Mismatch("unexpected-exception", "pos_matcher:" + type(ex).__name__, {"message": str(ex)[:300]})
                if "error" in exp:
                    raise Mismatch("expected-error", "pos_matcher", {"a": op["a"], "b": op["b"]})
                got = sorted(list(x) for x in pm)
                stats["values"] += 1 + len(got)
                if len(pm) != exp["n"] or got != exp["pos"]:
                    raise Mismatch("result-differs-from-core", "pos_matcher.entries", {"python_len": len(pm), "core_len": exp["n"], "python": got[:6], "core": exp["pos"][:6]})
                str(pm)
                if "matches" in exp:
                    src = slots[op["list"]]
                    if src is not None and src[1] == op["of_fill"] and id(src[0]) not in stale:
                        gm = [pm(m) for m in src[0]]
                        stats["values"] += len(gm)
                        if gm != exp["matches"]:
                            raise Mismatch("result-differs-from-core", "pos_matcher.call", {"python": gm[:20], "core": exp["matches"][:20]})
            elif kind == "word_info":
                src = slots[op["list"]]
                if src is None or src[1] != op["of_fill"] or op["idx"] >= len(src[0]) or id(src[0]) in stale:
                    stats["skipped"] += 1
                    continue
                import warnings
                with warnings.catch_warnings():
                    warnings.simplefilter("ignore")
                    wi = src[0][op["idx"]].get_word_info()
                for k_, v_ in op["expect"].items():
                    g_ = getattr(wi, k_)
                    stats["values"] += 1
                    if g_ != v_:
                        raise Mismatch("result-differs-from-core", "word_info." + k_, {"python": repr(g_)[:200], "core": repr(v_)[:200]})
                if "head_word_length" in op["expect"] and wi.length() != op["expect"]["head_word_length"]:
                    raise Mismatch("result-differs-from-core", "word_info.length", {})
            elif kind == "pos_of":
                g_ = dic.pos_of(op["id"])
                stats["values"] += 1
                if (None if g_ is None else list(g_)) != op["expect"]:
                    raise Mismatch("result-differs-from-core", "pos_of", {"id": op["id"], "python": repr(g_)[:200], "core": op["expect"]})
            elif kind == "iter_hold":
                src = slots[op["list"]]
                if src is None or id(src[0]) in stale:
                    stats["skipped"] += 1
                    continue
                it = iter(src[0])
                for _ in range(min(op["consume"], len(src[0]))):
                    next(it)
                iters[op["list"]] = (it, src[0])
            elif kind == "iter_resume":
                ent = iters[op["list"]]
                iters[op["list"]] = None
                if ent is None or id(ent[1]) in stale:
                    stats["skipped"] += 1
                    continue
                it, lst = ent
                got = 0
                for m in it:
                    got += 1
                    if got > 100000:
                        raise Mismatch("result-differs-from-core", "iterator-does-not-end", {})
                    try:
                        here = (m.begin(), m.end(), m.word_id(), m.surface(), m.part_of_speech_id(), len(m))
                    except BaseException as ex:  # noqa
                        raise Mismatch("unexpected-exception", "iterator-yielded-unusable-morpheme:" + type(ex).__name__,
                                       {"message": str(ex)[:200], "yielded": got, "len": len(lst)})
                    if not any(here[:3] == (x.begin(), x.end(), x.word_id()) for x in lst):
                        raise Mismatch("result-differs-from-core", "iterator-yielded-foreign-morpheme", {"yielded": got, "len": len(lst)})
                stats["values"] += got
            elif kind == "close_then_use":
                if not own_dic:
                    stats["skipped"] += 1
                    continue
                tok, tspec = toks[op["t"]]
                dic.close()
                uses = [lambda: tok.tokenize("あ"), lambda: dic.lookup("あ"), lambda: dic.pos_of(0), lambda: dic.create(),
                        lambda: dic.pos_matcher([("名詞",)]), lambda: dic.pre_tokenizer(), lambda: repr(dic), lambda: tok.mode, lambda: dic.close()]
                for s_ in slots:
                    if s_ is not None:
                        uses.append(lambda l=s_[0]: (str(l), len(l), [m.surface() for m in l], [m.part_of_speech() for m in l]))
                for u in uses:
                    try:
                        u()
                    except BaseException:  # noqa: any exception is fine, the interpreter must survive
                        pass
                stats["values"] += len(uses)
            elif kind == "misuse":
                tok, tspec = toks[op["t"]]
                try:
                    if op["kind"] == "bad_mode":
                        tok.tokenize("あ", mode="Z")
                    elif op["kind"] == "index_out_of_range":
                        src = slots[op["list"]]
                        if src is not None:
                            src[0][len(src[0]) + 3]
                        else:
                            continue
                    else:
                        dic.create(fields={"no_such_field"})
                except Exception:  # noqa
                    if tok.mode != sudachipy.SplitMode(tspec["mode"]):
                        raise Mismatch("per-call-mode-leaked", "after-misuse", {"mode": str(tok.mode)})
                    continue
                raise Mismatch("expected-error", "misuse:" + op["kind"], {})
        except Mismatch as mm:
            return {"script": sc["script"], "ok": False, "op": k, "class": mm.cls, "site": mm.site, "detail": mm.detail, "stats": stats}
        except BaseException as ex:  # PanicException derives from BaseException
            return {"script": sc["script"], "ok": False, "op": k, "class": "unexpected-exception", "site": type(ex).__name__,
                    "detail": {"message": str(ex)[:300]}, "stats": stats}
    return {"script": sc["script"], "ok": True, "stats": stats}


def run_thread_case(case, sudachipy, vb, sched=None):
    import ctypes
    import threading
    install_tokenizers_standin()
    nt = len(case["threads"])
    dic = sudachipy.Dictionary(config=case["config"], resource_dir=case["dir"])

    def handler(i, s_, ml):
        vb.vb_point()  # the interpreter may switch threads inside a handler
        out = [m.surface() for m in ml]
        vb.vb_point()
        return out

    pre_h = dic.pre_tokenizer(mode="C", handler=handler)
    pre_n = dic.pre_tokenizer(mode="C")
    results = [None] * nt

    def worker(tid):
        vb.vb_thread_begin(tid)
        try:
            results[tid] = run_script(case["threads"][tid], sudachipy, dic=dic, point=vb.vb_point, pretoks=(pre_h, pre_n))
        except BaseException as ex:  # noqa
            results[tid] = {"ok": False, "op": -1, "class": "unexpected-exception", "site": type(ex).__name__, "detail": {"message": str(ex)[:300]}, "stats": {}}
        finally:
            vb.vb_thread_end()

    vb.vb_reset(nt)
    ths = [threading.Thread(target=worker, args=(t,)) for t in range(nt)]
    for t in ths:
        t.start()
    cap = 20000
    buf = (ctypes.c_ubyte * cap)()
    if sched is not None:
        arr = (ctypes.c_ubyte * max(1, len(sched)))(*sched)
        n = vb.vb_run(arr, len(sched), ctypes.c_uint64(0), buf, cap)
    else:
        n = vb.vb_run(None, 0, ctypes.c_uint64(case["sched_seed"]), buf, cap)
    if n < 0:
        # -1: the thread holding the baton was blocked (not runnable) for 30 s; -2: it burnt 30 s of CPU without reaching a point
        return {"case": case["case"], "ok": False, "op": 0, "class": "no-progress", "site": "baton-holder-blocked" if n == -1 else "thread-spins",
                "detail": {"note": "a scheduled thread neither reached a scheduling point nor finished"}, "stats": {}, "fatal": True}
    for t in ths:
        t.join()
    choices = list(buf[:min(n, cap)])
    switches = sum(1 for i in range(1, len(choices)) if choices[i] != choices[i - 1])
    stats = {"threads": nt, "sched_points": n, "context_switches": switches}
    for tid, r in enumerate(results):
        for k2, v2 in (r or {}).get("stats", {}).items():
            stats[k2] = stats.get(k2, 0) + v2
        if r is None or not r["ok"]:
            r = r or {"class": "thread-lost", "site": "no-result", "op": 0, "detail": {}}
            cls = r["class"]
            if cls == "result-differs-from-core":
                cls = "result-differs-from-sequential"
            return {"case": case["case"], "ok": False, "op": r["op"], "class": cls, "site": r["site"],
                    "detail": dict(r["detail"], thread=tid), "schedule": choices, "stats": stats}
    return {"case": case["case"], "ok": True, "stats": stats, "schedule_hash": __import__("zlib").crc32(bytes(choices)), "schedule_len": len(choices)}


def child_threads(path, stage, baton, first, step, replay_sched=None):
    import ctypes
    sys.path.insert(0, stage)
    vb = ctypes.CDLL(baton, mode=ctypes.RTLD_GLOBAL)
    vb.vb_run.restype = ctypes.c_int
    vb.vb_exit_on_stall(1)
    import sudachipy  # noqa
    for case in iter_share(path, first, step):
        print(json.dumps({"begin": case["case"]}), flush=True)
        res = run_thread_case(case, sudachipy, vb, sched=replay_sched)
        print(json.dumps(res, ensure_ascii=False), flush=True)
        if res.get("fatal"):
            sys.stdout.flush()
            os._exit(3)


def run_threads(path, stage, baton, jobs, out, replay_sched=None):
    ncases = count_scripts(path)
    jobs = max(1, min(jobs, ncases))
    procs = []
    # (stale-object touches raise PanicException on purpose: no backtraces for them)
    env = dict(os.environ, PYTHONHASHSEED=os.environ.get("PYTHONHASHSEED", "0"), RUST_BACKTRACE="0")
    for j in range(jobs):
        cmd = [sys.executable, os.path.abspath(__file__), "child-threads", path, stage, baton, str(j), str(jobs)]
        if replay_sched is not None:
            cmd.append(json.dumps(replay_sched))
        # output goes to files: a pipe that nobody drains yet (the children are collected one after the other) blocks the
        # thread that writes to it once 64 KiB are pending, e.g. a warning printed from inside a scheduled thread
        fo, fe = open("%s.child%d.out" % (out, j), "w+"), open("%s.child%d.err" % (out, j), "w+")
        procs.append((subprocess.Popen(cmd, stdout=fo, stderr=fe, text=True, env=env), fo, fe))
    results = []
    for p, fo, fe in procs:
        p.wait()
        fo.seek(0); fe.seek(0)
        so, se = fo.read(), fe.read()[-4000:]
        fo.close(); fe.close()
        for f_ in (fo.name, fe.name):
            try:
                os.remove(f_)
            except OSError:
                pass
        current = None
        for line in so.splitlines():
            try:
                d = json.loads(line)
            except ValueError:
                continue
            if "begin" in d:
                current = d["begin"]
            else:
                results.append(d)
                current = None
        if p.returncode in (4, 5) and current is not None:
            # the baton watchdog ended the worker: the scheduled thread was blocked (4) or spinning (5) for 30 s
            results.append({"case": current, "ok": False, "op": 0, "class": "no-progress",
                            "site": "baton-holder-blocked" if p.returncode == 4 else "thread-spins",
                            "detail": {"note": "a scheduled thread neither reached a scheduling point nor finished; the worker was ended by the watchdog"}, "stats": {}})
        elif p.returncode != 0 and current is not None:
            results.append({"case": current, "ok": False, "op": -1, "class": "interpreter-crash",
                            "site": "signal-%d" % (-p.returncode) if p.returncode < 0 else "exit-%d" % p.returncode,
                            "detail": {"stderr": se[-600:]}, "stats": {}})
        elif p.returncode not in (0, 3) and current is None:
            results.append({"case": -1, "ok": False, "op": 0, "class": "harness-error", "site": "child", "detail": {"returncode": p.returncode, "stderr": se[-600:]}, "stats": {}})
    results.sort(key=lambda r: r["case"])
    with open(out, "w", encoding="utf-8") as f:
        json.dump({"cases": ncases, "results": results}, f, ensure_ascii=False)
    bad = [r for r in results if not r["ok"]]
    print("pysim-threads: cases=%d results=%d failing=%d" % (ncases, len(results), len(bad)))
    return 0 if not bad else 1


def child(path, stage, first, step):
    sys.path.insert(0, stage)
    import sudachipy  # noqa
    for sc in iter_share(path, first, step):
        print(json.dumps({"begin": sc["script"]}), flush=True)
        res = run_script(sc, sudachipy)
        print(json.dumps(res, ensure_ascii=False), flush=True)


def run(path, stage, jobs, out):
    nscripts = count_scripts(path)
    jobs = max(1, min(jobs, nscripts))
    procs = []
    # (stale-object touches raise PanicException on purpose: no backtraces for them)
    env = dict(os.environ, PYTHONHASHSEED=os.environ.get("PYTHONHASHSEED", "0"), RUST_BACKTRACE="0")
    for j in range(jobs):
        fo, fe = open("%s.child%d.out" % (out, j), "w+"), open("%s.child%d.err" % (out, j), "w+")
        procs.append((subprocess.Popen([sys.executable, os.path.abspath(__file__), "child", path, stage, str(j), str(jobs)],
                                       stdout=fo, stderr=fe, text=True, env=env), fo, fe))
    results = []
    for j, (p, fo, fe) in enumerate(procs):
        p.wait()
        fo.seek(0); fe.seek(0)
        so, se = fo.read(), fe.read()[-4000:]
        fo.close(); fe.close()
        for f_ in (fo.name, fe.name):
            try:
                os.remove(f_)
            except OSError:
                pass
        current = None
        for line in so.splitlines():
            try:
                d = json.loads(line)
            except ValueError:
                continue
            if "begin" in d:
                current = d["begin"]
            else:
                results.append(d)
                current = None
        if p.returncode != 0:
            if current is None:
                # died outside a script (import failure etc.): harness error
                results.append({"script": -1, "ok": False, "class": "harness-error", "site": "child", "op": 0,
                                "detail": {"returncode": p.returncode, "stderr": se[-600:]}, "stats": {}})
            else:
                results.append({"script": current, "ok": False, "op": -1, "class": "interpreter-crash",
                                "site": "signal-%d" % (-p.returncode) if p.returncode < 0 else "exit-%d" % p.returncode,
                                "detail": {"stderr": se[-600:]}, "stats": {}})
    results.sort(key=lambda r: r["script"])
    with open(out, "w", encoding="utf-8") as f:
        json.dump({"scripts": nscripts, "results": results}, f, ensure_ascii=False)
    bad = [r for r in results if not r["ok"]]
    print("pysim: scripts=%d results=%d failing=%d" % (nscripts, len(results), len(bad)))
    return 0 if not bad else 1


if __name__ == "__main__":
    if sys.argv[1] == "child":
        child(sys.argv[2], sys.argv[3], int(sys.argv[4]), int(sys.argv[5]))
    elif sys.argv[1] == "child-threads":
        rs = json.loads(sys.argv[7]) if len(sys.argv) > 7 else None
        child_threads(sys.argv[2], sys.argv[3], sys.argv[4], int(sys.argv[5]), int(sys.argv[6]), rs)
    elif sys.argv[1] == "threads":
        # pysim.py threads <threads.jsonl> <stage> <libvbaton.so> [--jobs N] [--out f] [--sched json]
        jobs, out, rs = 8, "pysim-threads.json", None
        a = sys.argv[5:]
        while a:
            if a[0] == "--jobs":
                jobs = int(a[1]); a = a[2:]
            elif a[0] == "--out":
                out = a[1]; a = a[2:]
            elif a[0] == "--sched":
                rs = json.loads(a[1]); a = a[2:]
            else:
                a = a[1:]
        sys.exit(run_threads(sys.argv[2], sys.argv[3], sys.argv[4], jobs, out, rs))
    else:
        jobs = 16
        out = "pysim-results.json"
        a = sys.argv[4:]
        while a:
            if a[0] == "--jobs":
                jobs = int(a[1]); a = a[2:]
            elif a[0] == "--out":
                out = a[1]; a = a[2:]
            else:
                a = a[1:]
        sys.exit(run(sys.argv[2], sys.argv[3], jobs, out))
