#!/usr/bin/env python3
"""C06 groups (b) and (c): the real front ends writing to a real file that fails at byte k.

The child process gets RLIMIT_FSIZE = k with SIGXFSZ ignored, so the kernel fails the output file
at exactly byte k (deterministic "disk full at byte k"). Oracle: for k < L (L = size of the
reference output computed by the library) the front end must report failure (CLI: non-zero exit
status; Python: an exception); for k >= L it must succeed and the file must equal the reference
bytes except for the header's time stamp.

  buildsink.py <cases.jsonl> <sudachi binary> <stage dir> [--jobs N] [--out results.json]
"""
import json
import os
import subprocess
import sys
from concurrent.futures import ThreadPoolExecutor

CHILD_CLI = r"""
import os, resource, signal, sys
k = int(sys.argv[1])
signal.signal(signal.SIGXFSZ, signal.SIG_IGN)
resource.setrlimit(resource.RLIMIT_FSIZE, (k, k))
os.execv(sys.argv[2], sys.argv[2:])
"""

CHILD_PY = r"""
import resource, signal, sys
sys.path.insert(0, sys.argv[2])
import sudachipy.sudachipy as sp
k = int(sys.argv[1]); kind = sys.argv[3]
signal.signal(signal.SIGXFSZ, signal.SIG_IGN)
resource.setrlimit(resource.RLIMIT_FSIZE, (k, k))
try:
    if kind == "system":
        sp.build_system_dic(sys.argv[4], sys.argv[5].split("\n"), sys.argv[6], "")
    else:
        sp.build_user_dic(sys.argv[4], [sys.argv[5]], sys.argv[6], "")
except BaseException as e:
    print("EXC " + type(e).__name__)
    sys.exit(7)
print("OK")
"""


def same_but_time(a, b):
    return len(a) == len(b) and a[:8] == b[:8] and a[16:] == b[16:]


def one(kind, case, k, binary, stage):
    d = case["dir"]
    out = os.path.join(d, "out-%s-%d.dic" % (kind, k))
    if os.path.exists(out):
        os.remove(out)
    if kind == "cli":
        cmd = [sys.executable, "-c", CHILD_CLI, str(k), binary, "build", "-m", os.path.join(d, "matrix.def"), "-o", out] + [os.path.join(d, f) for f in case.get("lex_files", ["lex.csv"])]
        ref, L = os.path.join(d, "ref_system.dic"), case["system_len"]
    elif kind == "py-system":
        cmd = [sys.executable, "-c", CHILD_PY, str(k), stage, "system", os.path.join(d, "matrix.def"), "\n".join(os.path.join(d, f) for f in case.get("lex_files", ["lex.csv"])), out]
        ref, L = os.path.join(d, "ref_system.dic"), case["system_len"]
    else:
        cmd = [sys.executable, "-c", CHILD_PY, str(k), stage, "user", os.path.join(d, "ref_system.dic"), os.path.join(d, "user.csv"), out]
        ref, L = os.path.join(d, "ref_user.dic"), case["user_len"]
    p = subprocess.run(cmd, stdout=subprocess.PIPE, stderr=subprocess.PIPE, timeout=300)
    reported_ok = p.returncode == 0
    res = {"case": case["case"], "kind": kind, "k": k, "L": L, "ok": True}
    if p.returncode < 0:
        res.update(ok=False, cls="interpreter-crash", site=kind, detail={"signal": -p.returncode})
    elif k < L and reported_ok:
        size = os.path.getsize(out) if os.path.exists(out) else -1
        res.update(ok=False, cls="sink-failure-reported-as-success", site={"cli": "cli-build"}.get(kind, "python-build"),
                   detail={"limit": k, "needed": L, "file_size": size})
    elif k >= L:
        if not reported_ok:
            res.update(ok=False, cls="unexpected-failure", site=kind, detail={"returncode": p.returncode, "stderr": p.stderr.decode("utf-8", "replace")[-300:],
                                                                                 "stdout": p.stdout.decode("utf-8", "replace")[-100:]})
        else:
            with open(out, "rb") as f:
                got = f.read()
            with open(ref, "rb") as f:
                want = f.read()
            if not same_but_time(got, want):
                res.update(ok=False, cls="ok-but-bytes-differ", site=kind, detail={"got": len(got), "expected": len(want)})
    if os.path.exists(out):
        os.remove(out)
    return res


def main():
    path, binary, stage = sys.argv[1:4]
    jobs, outp = 16, "buildsink-results.json"
    full_only = False
    a = sys.argv[4:]
    while a:
        if a[0] == "--jobs":
            jobs = int(a[1]); a = a[2:]
        elif a[0] == "--out":
            outp = a[1]; a = a[2:]
        elif a[0] == "--full-only":
            full_only = True; a = a[1:]
        else:
            a = a[1:]
    with open(path, encoding="utf-8") as f:
        cases = [json.loads(l) for l in f if l.strip()]
    if full_only:
        # only limits at or beyond the end of the output: the front ends must produce the reference bytes
        for c in cases:
            c["offsets"] = [k for k in c["offsets"] if k >= c["system_len"]][:1] or [c["system_len"] + 1]
            c["user_offsets"] = [k for k in c["user_offsets"] if k >= c["user_len"]][:1] if c["user_len"] else []
    work = []
    for c in cases:
        for k in c["offsets"]:
            work.append(("cli", c, k))
            work.append(("py-system", c, k))
        for k in c["user_offsets"]:
            work.append(("py-user", c, k))
    with ThreadPoolExecutor(max_workers=jobs) as ex:
        results = list(ex.map(lambda w: one(w[0], w[1], w[2], binary, stage), work))
    with open(outp, "w", encoding="utf-8") as f:
        json.dump({"cases": len(cases), "runs": len(results), "results": results}, f)
    bad = [r for r in results if not r["ok"]]
    print("buildsink: worlds=%d process_runs=%d failing=%d" % (len(cases), len(results), len(bad)))
    sys.exit(0 if not bad else 1)


if __name__ == "__main__":
    main()
