/* Baton scheduler for real threads inside one CPython process (C18, Python-thread clause).
 *
 * Exactly one registered thread is runnable at any moment. Threads give the baton back at sim
 * points: vb_point() is called by the seam plugins (inside do_tokenize, GIL released) and by the
 * Python workers between API calls / inside handlers (through ctypes, GIL released). The
 * controller (vb_run, called from the main Python thread through ctypes) picks who runs next
 * from an explicit schedule or from a seeded PRNG and records every choice. */
#define _GNU_SOURCE
#include <pthread.h>
#include <stdint.h>
#include <stdio.h>
#include <string.h>
#include <sys/syscall.h>
#include <time.h>
#include <unistd.h>

#define MAXT 16

static pthread_mutex_t mu = PTHREAD_MUTEX_INITIALIZER;
static pthread_cond_t cv = PTHREAD_COND_INITIALIZER;
static int nthreads = 0;
static int granted = -1;
static int parked[MAXT];
static int finished[MAXT];
static int registered[MAXT];
static long ktid[MAXT];
static uint64_t points = 0;
static __thread int my_tid = -1;

static int exit_on_stall = 0;
void vb_exit_on_stall(int v) { exit_on_stall = v; }

void vb_reset(int n) {
    pthread_mutex_lock(&mu);
    nthreads = n > MAXT ? MAXT : n;
    granted = -1;
    points = 0;
    memset(parked, 0, sizeof(parked));
    memset(finished, 0, sizeof(finished));
    memset(registered, 0, sizeof(registered));
    pthread_mutex_unlock(&mu);
}

static void park_locked(int tid) {
    parked[tid] = 1;
    points++;
    if (granted == tid) granted = -1;
    pthread_cond_broadcast(&cv);
    while (granted != tid) pthread_cond_wait(&cv, &mu);
    parked[tid] = 0;
}

void vb_thread_begin(int tid) {
    if (tid < 0 || tid >= MAXT) return;
    my_tid = tid;
    pthread_mutex_lock(&mu);
    registered[tid] = 1;
    ktid[tid] = (long)syscall(SYS_gettid);
    park_locked(tid);
    pthread_mutex_unlock(&mu);
}

void vb_point(void) {
    int tid = my_tid;
    if (tid < 0) return; /* not a scheduled thread: pass through */
    pthread_mutex_lock(&mu);
    park_locked(tid);
    pthread_mutex_unlock(&mu);
}

void vb_thread_end(void) {
    int tid = my_tid;
    if (tid < 0) return;
    pthread_mutex_lock(&mu);
    finished[tid] = 1;
    if (granted == tid) granted = -1;
    pthread_cond_broadcast(&cv);
    pthread_mutex_unlock(&mu);
    my_tid = -1;
}

static uint64_t sm(uint64_t *s) {
    *s += 0x9E3779B97F4A7C15ULL;
    uint64_t z = *s;
    z = (z ^ (z >> 30)) * 0xBF58476D1CE4E5B9ULL;
    z = (z ^ (z >> 27)) * 0x94D049BB133111EBULL;
    return z ^ (z >> 31);
}

/* state ('R', 'S', 'D', ...) and consumed CPU (clock ticks) of a thread of this process; 0 if unreadable */
static char thread_state(long tid, unsigned long *ticks) {
    char path[64], buf[512];
    snprintf(path, sizeof path, "/proc/self/task/%ld/stat", tid);
    FILE *f = fopen(path, "r");
    if (!f) return 0;
    size_t n = fread(buf, 1, sizeof buf - 1, f);
    fclose(f);
    buf[n] = 0;
    char *p = strrchr(buf, ')');
    if (!p || !p[1] || !p[2]) return 0;
    char st = p[2];
    unsigned long ut = 0, stt = 0;
    /* fields after the state: ppid pgrp session tty tpgid flags minflt cminflt majflt cmajflt utime stime */
    sscanf(p + 3, " %*d %*d %*d %*d %*d %*u %*u %*u %*u %*u %lu %lu", &ut, &stt);
    *ticks = ut + stt;
    return st;
}

/* returns the number of scheduling decisions, -1 if the thread holding the baton was *blocked* (not runnable) for 30 s
 * without reaching a point, -2 if it burnt 30 s of CPU time without reaching one. A thread that is merely starved by
 * other load is runnable and is waited for (wall-clock time alone decides nothing; hard cap 30 min). */
int vb_run(const unsigned char *sched, int sched_len, uint64_t seed, unsigned char *out, int cap) {
    int step = 0, last = -1;
    uint64_t st = seed;
    long hz = sysconf(_SC_CLK_TCK);
    for (;;) {
        pthread_mutex_lock(&mu);
        struct timespec t0;
        clock_gettime(CLOCK_REALTIME, &t0);
        int blocked_ms = 0;
        unsigned long cpu0 = 0, cpu1 = 0;
        int have_cpu0 = 0;
        long idle_ms = 0;
        for (;;) {
            int quiescent = (granted == -1);
            for (int t = 0; t < nthreads && quiescent; t++)
                if (!(registered[t] && (parked[t] || finished[t]))) quiescent = 0;
            if (quiescent) break;
            struct timespec dl;
            clock_gettime(CLOCK_REALTIME, &dl);
            if (dl.tv_sec - t0.tv_sec > 1800) {
                pthread_mutex_unlock(&mu);
                return -1;
            }
            dl.tv_nsec += 100 * 1000 * 1000;
            if (dl.tv_nsec >= 1000000000L) { dl.tv_sec++; dl.tv_nsec -= 1000000000L; }
            pthread_cond_timedwait(&cv, &mu, &dl);
            int g = granted;
            if (g == -1) {
                /* nobody holds the baton and somebody is neither parked nor finished: if every such thread sleeps for
                   30 s (e.g. waiting for the interpreter lock that a parked thread holds) nothing will ever change */
                int all_asleep = 1, any = 0;
                for (int t = 0; t < nthreads; t++) {
                    if (registered[t] && !(parked[t] || finished[t])) {
                        unsigned long c;
                        char s = thread_state(ktid[t], &c);
                        any = 1;
                        if (!(s == 'S' || s == 'D' || s == 't' || s == 'T')) all_asleep = 0;
                    }
                }
                if (any && all_asleep) idle_ms += 100; else idle_ms = 0;
                if (idle_ms > 30000) {
                    pthread_mutex_unlock(&mu);
                    if (exit_on_stall) _exit(4);
                    return -1;
                }
            }
            if (g >= 0 && g < MAXT && registered[g]) {
                char s = thread_state(ktid[g], &cpu1);
                if (!have_cpu0) { cpu0 = cpu1; have_cpu0 = 1; }
                if (s == 'S' || s == 'D' || s == 't' || s == 'T') blocked_ms += 100; else if (s) blocked_ms = 0;
                if (blocked_ms > 30000) {
                    pthread_mutex_unlock(&mu);
                    /* the caller may be unable to take the interpreter lock again (a thread parked at a point while
                       holding it): in a worker process report through the exit status instead of returning */
                    if (exit_on_stall) _exit(4);
                    return -1;
                }
                if (hz > 0 && (cpu1 - cpu0) / (unsigned long)hz > 30) {
                    pthread_mutex_unlock(&mu);
                    if (exit_on_stall) _exit(5);
                    return -2;
                }
            }
        }
        int runnable[MAXT], nr = 0;
        for (int t = 0; t < nthreads; t++)
            if (parked[t] && !finished[t]) runnable[nr++] = t;
        if (nr == 0) {
            pthread_mutex_unlock(&mu);
            return step;
        }
        int pick = -1;
        if (sched && step < sched_len) {
            for (int i = 0; i < nr; i++)
                if (runnable[i] == sched[step]) pick = runnable[i];
        }
        if (pick < 0) {
            if (sched) {
                /* replaying a (minimised) schedule: stay on the previous thread if possible */
                for (int i = 0; i < nr; i++)
                    if (runnable[i] == last) pick = last;
                if (pick < 0) pick = runnable[0];
            } else {
                uint64_t r = sm(&st);
                int sticky = (r % 4) == 0;
                if (sticky && last >= 0) {
                    for (int i = 0; i < nr; i++)
                        if (runnable[i] == last) pick = last;
                }
                if (pick < 0) pick = runnable[(r >> 8) % nr];
            }
        }
        if (step < cap) out[step] = (unsigned char)pick;
        step++;
        last = pick;
        granted = pick;
        pthread_cond_broadcast(&cv);
        pthread_mutex_unlock(&mu);
    }
}

uint64_t vb_points(void) { return points; }
