/* Baton scheduler for real threads inside one CPython process (C18, Python-thread clause).
 *
 * Exactly one registered thread is runnable at any moment. Threads give the baton back at sim
 * points: vb_point() is called by the seam plugins (inside do_tokenize, GIL released) and by the
 * Python workers between API calls / inside handlers (through ctypes, GIL released). The
 * controller (vb_run, called from the main Python thread through ctypes) picks who runs next
 * from an explicit schedule or from a seeded PRNG and records every choice. */
#define _GNU_SOURCE
#include <pthread.h>
#include <stdint.h>
#include <string.h>
#include <time.h>

#define MAXT 16

static pthread_mutex_t mu = PTHREAD_MUTEX_INITIALIZER;
static pthread_cond_t cv = PTHREAD_COND_INITIALIZER;
static int nthreads = 0;
static int granted = -1;
static int parked[MAXT];
static int finished[MAXT];
static int registered[MAXT];
static uint64_t points = 0;
static __thread int my_tid = -1;

void vb_reset(int n) {
    pthread_mutex_lock(&mu);
    nthreads = n > MAXT ? MAXT : n;
    granted = -1;
    points = 0;
    memset(parked, 0, sizeof(parked));
    memset(finished, 0, sizeof(finished));
    memset(registered, 0, sizeof(registered));
    pthread_mutex_unlock(&mu);
}

static void park_locked(int tid) {
    parked[tid] = 1;
    points++;
    if (granted == tid) granted = -1;
    pthread_cond_broadcast(&cv);
    while (granted != tid) pthread_cond_wait(&cv, &mu);
    parked[tid] = 0;
}

void vb_thread_begin(int tid) {
    if (tid < 0 || tid >= MAXT) return;
    my_tid = tid;
    pthread_mutex_lock(&mu);
    registered[tid] = 1;
    park_locked(tid);
    pthread_mutex_unlock(&mu);
}

void vb_point(void) {
    int tid = my_tid;
    if (tid < 0) return; /* not a scheduled thread: pass through */
    pthread_mutex_lock(&mu);
    park_locked(tid);
    pthread_mutex_unlock(&mu);
}

void vb_thread_end(void) {
    int tid = my_tid;
    if (tid < 0) return;
    pthread_mutex_lock(&mu);
    finished[tid] = 1;
    if (granted == tid) granted = -1;
    pthread_cond_broadcast(&cv);
    pthread_mutex_unlock(&mu);
    my_tid = -1;
}

static uint64_t sm(uint64_t *s) {
    *s += 0x9E3779B97F4A7C15ULL;
    uint64_t z = *s;
    z = (z ^ (z >> 30)) * 0xBF58476D1CE4E5B9ULL;
    z = (z ^ (z >> 27)) * 0x94D049BB133111EBULL;
    return z ^ (z >> 31);
}

/* returns the number of scheduling decisions, or -1 if a thread made no progress for 60 s */
int vb_run(const unsigned char *sched, int sched_len, uint64_t seed, unsigned char *out, int cap) {
    int step = 0, last = -1;
    uint64_t st = seed;
    for (;;) {
        pthread_mutex_lock(&mu);
        struct timespec t0;
        clock_gettime(CLOCK_REALTIME, &t0);
        for (;;) {
            int quiescent = (granted == -1);
            for (int t = 0; t < nthreads && quiescent; t++)
                if (!(registered[t] && (parked[t] || finished[t]))) quiescent = 0;
            if (quiescent) break;
            struct timespec dl;
            clock_gettime(CLOCK_REALTIME, &dl);
            if (dl.tv_sec - t0.tv_sec > 60) {
                pthread_mutex_unlock(&mu);
                return -1;
            }
            dl.tv_nsec += 100 * 1000 * 1000;
            if (dl.tv_nsec >= 1000000000L) { dl.tv_sec++; dl.tv_nsec -= 1000000000L; }
            pthread_cond_timedwait(&cv, &mu, &dl);
        }
        int runnable[MAXT], nr = 0;
        for (int t = 0; t < nthreads; t++)
            if (parked[t] && !finished[t]) runnable[nr++] = t;
        if (nr == 0) {
            pthread_mutex_unlock(&mu);
            return step;
        }
        int pick = -1;
        if (sched && step < sched_len) {
            for (int i = 0; i < nr; i++)
                if (runnable[i] == sched[step]) pick = runnable[i];
        }
        if (pick < 0) {
            if (sched) {
                /* replaying a (minimised) schedule: stay on the previous thread if possible */
                for (int i = 0; i < nr; i++)
                    if (runnable[i] == last) pick = last;
                if (pick < 0) pick = runnable[0];
            } else {
                uint64_t r = sm(&st);
                int sticky = (r % 4) == 0;
                if (sticky && last >= 0) {
                    for (int i = 0; i < nr; i++)
                        if (runnable[i] == last) pick = last;
                }
                if (pick < 0) pick = runnable[(r >> 8) % nr];
            }
        }
        if (step < cap) out[step] = (unsigned char)pick;
        step++;
        last = pick;
        granted = pick;
        pthread_cond_broadcast(&cv);
        pthread_mutex_unlock(&mu);
    }
}

uint64_t vb_points(void) { return points; }
