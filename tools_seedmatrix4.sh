#!/bin/bash
# like tools_seedmatrix.sh but for the names given on the command line; appends to seeded/RESULTS4.tsv
cd /verif
out=${OUT:-/verif/seeded/RESULTS4.tsv}
[ -f $out ] || echo -e "mutant\tproperty\texit\tviolation_lines\tfirst_violation" > $out
for name in "$@"; do
  d=/verif/seeded/$name; prop=${name%%-*}; prop=${prop#self}
  case $name in self-*) prop=$(echo $name | cut -d- -f2);; esac
  if ! git -C /repo diff --quiet; then echo "repo dirty"; exit 2; fi
  if ! git -C /repo apply $d/patch.diff 2>/dev/null; then echo -e "$name\t$prop\tNA\t0\tpatch does not apply" >> $out; continue; fi
  log=/verif/work/seed-$name.log
  timeout 3000 ./check $prop --tier quick > $log 2>&1; rc=$?
  git -C /repo checkout -- .
  n=$(grep -c "^VIOLATION" $log)
  first=$(grep -m1 "^violation:" $log | cut -c1-220 | tr '\t' ' ')
  echo -e "$name\t$prop\t$rc\t$n\t$first" >> $out
  rm -f /verif/replays/*.json
done
echo "done $*" >> $out
